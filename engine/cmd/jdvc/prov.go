package main

import (
	"fmt"
	"go/token"
	"strings"
)

// provCtx is the provenance/ownership back end: every in-place write must target storage that is
// fresh in this activation or named in the function's modifies/consumes clause.
type provCtx struct {
	allowed map[string]bool // parameter names that may be written
	pc      Term
	enabled bool
}

func newProvCtx(con *Contract) *provCtx {
	p := &provCtx{allowed: map[string]bool{}, enabled: true}
	if con != nil {
		for _, m := range con.Modifies {
			p.allowed[m] = true
		}
		for _, m := range con.Consumes {
			p.allowed[m] = true
		}
	}
	return p
}

// write records an in-place write to root r. A write to storage reachable from a parameter that is
// not listed in modifies/consumes becomes a "modifies" obligation (goal false under the current
// path condition: discharged only if the write is unreachable).
func (p *provCtx) write(e *Exec, r *Root, pos token.Pos, what string) {
	if !p.enabled || e.pure > 0 || r == nil {
		return
	}
	for _, lab := range strings.Split(r.Label, "|") {
		lab = strings.TrimPrefix(lab, "spare:")
		var bad string
		switch {
		case lab == "fresh" || lab == "loop" || lab == "call" || lab == "field" || lab == "":
			continue
		case lab == "global":
			if !p.allowed["global"] {
				bad = "global state"
			}
		case strings.HasPrefix(lab, "param:"):
			name := strings.TrimPrefix(lab, "param:")
			if !p.allowed[name] {
				bad = "storage reachable from parameter " + name
			}
		}
		if bad != "" {
			e.oblige("modifies", fmt.Sprintf("%s#modifies@%s", e.fnKey, e.posStr(pos)), pos, e.curPC, False,
				fmt.Sprintf("%s writes %s, which is not in the modifies/consumes clause", what, bad))
		}
	}
}

