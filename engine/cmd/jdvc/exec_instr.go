package main

import (
	"fmt"
	"go/token"
	"go/types"
	"strings"

	"golang.org/x/tools/go/ssa"
)

func (fr *Frame) safety(kind string, pos token.Pos, pc, goal Term, detail string) {
	e := fr.e
	e.oblige("safety", fmt.Sprintf("%s#%s@%s", e.fnKey, kind, e.posStr(pos)), pos, pc, goal, detail)
}

// exec executes one non-phi instruction; returns false when the block ends here.
func (fr *Frame) exec(st *State, pc Term, ins ssa.Instruction) bool {
	e := fr.e
	u := e.p.U
	e.curPC = pc
	e.curPos = ins.Pos()
	defer func() {
		if r := recover(); r != nil {
			e.fail("%s: %s: %v [%s]", fr.key, e.posStr(ins.Pos()), r, ins.String())
			if v, ok := ins.(ssa.Value); ok {
				fr.vals[v] = e.freshVal(st, "err", v.Type(), "fresh", pc)
			}
		}
	}()
	switch ins := ins.(type) {
	case *ssa.DebugRef:
		return true
	case *ssa.Alloc:
		elem := ins.Type().(*types.Pointer).Elem()
		if at, ok := elem.Underlying().(*types.Array); ok && e.p.sortOf(elem) != SHash {
			es := e.p.sortOf(at.Elem())
			r := e.newRoot(ins.Comment, 1, es, "fresh")
			r.N = int(at.Len())
			st.mem[r] = Term{fmt.Sprintf("((as const (Array Int %s)) %s)", es, u.Zero(es).S), u.ArrSort(es)}
			fr.vals[ins] = Val{K: vAddr, R: r}
			return true
		}
		r := e.newRoot(ins.Comment, 0, "", "fresh")
		st.cell[r] = e.zeroVal(st, elem)
		fr.vals[ins] = Val{K: vAddr, R: r}
	case *ssa.Store:
		a := fr.get(st, ins.Addr)
		v := fr.get(st, ins.Val)
		if a.K != vAddr {
			e.fail("%s: store through non-address %s", fr.key, ins.Addr.Name())
			return true
		}
		if a.NilAddr {
			fr.safety("nil-store", ins.Pos(), pc, False, "store through nil pointer")
			return true
		}
		v = fr.coerceNil(st, v, ins.Val.Type())
		e.store(st, a, v, ins.Pos())
	case *ssa.UnOp:
		x := fr.get(st, ins.X)
		switch ins.Op {
		case token.MUL:
			if x.K == vAddr {
				if x.NilAddr {
					fr.safety("nil-deref", ins.Pos(), pc, False, "nil dereference")
					fr.vals[ins] = e.freshVal(st, "nilderef", ins.Type(), "fresh", pc)
					return true
				}
				fr.vals[ins] = e.load(st, x, ins.Pos())
			} else if x.K == vTerm && u.IsPtr(x.T.Sort) {
				fr.safety("nil-deref", ins.Pos(), pc, Not(Eq(x.T, u.Zero(x.T.Sort))), "nil dereference")
				d := u.DT(x.T.Sort)
				fr.vals[ins] = e.wrap(st, App(d.Elem, "val_"+string(x.T.Sort), x.T), "call")
			} else {
				e.fail("%s: load from unsupported value kind %d", fr.key, x.K)
				fr.vals[ins] = e.freshVal(st, "load", ins.Type(), "fresh", pc)
			}
		case token.NOT:
			fr.vals[ins] = termVal(Not(e.toTerm(st, x)))
		case token.SUB:
			t := e.toTerm(st, x)
			fr.vals[ins] = termVal(Term{"(- " + t.S + ")", t.Sort})
		default:
			e.note("unmodelled unary op %s", ins.Op)
			fr.vals[ins] = e.freshVal(st, "unop", ins.Type(), "fresh", pc)
		}
	case *ssa.BinOp:
		fr.vals[ins] = fr.binop(st, pc, ins)
	case *ssa.Phi:
		return true
	case *ssa.Jump, *ssa.If:
		return true
	case *ssa.Return:
		var vs []Val
		for _, r := range ins.Results {
			vs = append(vs, fr.get(st, r))
		}
		for i := range vs {
			rt := fr.fn.Signature.Results().At(i).Type()
			vs[i] = fr.coerceNil(st, vs[i], rt)
			if _, isPtr := rt.Underlying().(*types.Pointer); isPtr && vs[i].K == vAddr {
				// pointers leaving a function become immutable Ptr terms (snapshot of the pointee)
				ps := e.p.sortOf(rt)
				if vs[i].NilAddr {
					vs[i] = termVal(u.Zero(ps))
				} else {
					pv := e.load(st, vs[i], ins.Pos())
					vs[i] = termVal(App(ps, "mk_"+string(ps), e.toTerm(st, pv)))
				}
			}
		}
		fr.rets = append(fr.rets, retPoint{pc: pc, vals: vs, st: st, pos: ins.Pos(), block: ins.Block().Index})
		return false
	case *ssa.Panic:
		fr.safety("panic", ins.Pos(), pc, False, "explicit panic reachable")
		return false
	case *ssa.RunDefers:
		return true
	case *ssa.Defer, *ssa.Go, *ssa.Select, *ssa.Send:
		e.fail("%s: unsupported instruction %s", fr.key, ins)
		return true
	case *ssa.IndexAddr:
		x := fr.get(st, ins.X)
		i := e.toTerm(st, fr.get(st, ins.Index))
		switch x.K {
		case vSlice:
			fr.safety("index", ins.Pos(), pc, And(Cmp("<=", IntLit(0), i), Cmp("<", i, x.Len)), "index in range")
			fr.vals[ins] = Val{K: vAddr, R: x.R, Path: []Step{{Index: Arith("+", x.Off, i)}}}
		case vAddr:
			if x.R.Kind == 1 && len(x.Path) == 0 {
				fr.safety("index", ins.Pos(), pc, And(Cmp("<=", IntLit(0), i), Cmp("<", i, IntLit(int64(x.R.N)))), "array index in range")
				fr.vals[ins] = Val{K: vAddr, R: x.R, Path: []Step{{Index: i}}}
			} else {
				p := append(append([]Step{}, x.Path...), Step{Index: i})
				fr.vals[ins] = Val{K: vAddr, R: x.R, Path: p}
			}
		default:
			e.fail("%s: IndexAddr on value kind %d", fr.key, x.K)
		}
	case *ssa.FieldAddr:
		x := fr.get(st, ins.X)
		if x.K == vAddr {
			if x.NilAddr {
				fr.safety("nil-deref", ins.Pos(), pc, False, "field of nil pointer")
			}
			p := append(append([]Step{}, x.Path...), Step{IsField: true, Field: ins.Field})
			fr.vals[ins] = Val{K: vAddr, R: x.R, Path: p, NilAddr: x.NilAddr}
		} else if x.K == vTerm && u.IsPtr(x.T.Sort) {
			fr.safety("nil-deref", ins.Pos(), pc, Not(Eq(x.T, u.Zero(x.T.Sort))), "nil dereference")
			d := u.DT(x.T.Sort)
			r := e.newRoot("deref", 0, "", "call")
			st.cell[r] = e.wrap(st, App(d.Elem, "val_"+string(x.T.Sort), x.T), "call")
			fr.vals[ins] = Val{K: vAddr, R: r, Path: []Step{{IsField: true, Field: ins.Field}}}
		} else {
			e.fail("%s: FieldAddr on value kind %d", fr.key, x.K)
		}
	case *ssa.Field:
		e.readInv = e.pure == 0
		defer func() { e.readInv = false }()
		xv := fr.get(st, ins.X)
		x := e.toTerm(st, xv)
		flab := labelOf(xv)
		own := ""
		if xv.K == vTerm {
			if fl, ok := xv.FLab[ins.Field]; ok {
				flab = fl
				own = xv.FOwn[ins.Field]
			} else if xv.Own != "" {
				own = xv.Own
				if xv.Lab != "" {
					flab = xv.Lab
				}
			} else if xv.Lab != "" {
				flab = xv.Lab
			} else {
				flab = "fresh"
			}
		}
		fr.vals[ins] = e.wrapOwn(st, u.Field(x, ins.Field), flab, own)
	case *ssa.Index:
		x := fr.get(st, ins.X)
		i := e.toTerm(st, fr.get(st, ins.Index))
		if x.K == vTerm && x.T.Sort == SString {
			fr.safety("index", ins.Pos(), pc, And(Cmp("<=", IntLit(0), i), Cmp("<", i, App(SInt, "str.len", x.T))), "string index in range")
			fr.vals[ins] = termVal(App(SInt, "str.to_code", App(SString, "str.at", x.T, i)))
		} else if x.K == vSlice {
			fr.safety("index", ins.Pos(), pc, And(Cmp("<=", IntLit(0), i), Cmp("<", i, x.Len)), "index in range")
			fr.vals[ins] = e.wrap(st, u.SIndex(e.toTerm(st, x), i), labelOf(x))
		} else {
			e.note("unmodelled Index on %s", ins.X.Type())
			fr.vals[ins] = e.freshVal(st, "index", ins.Type(), "fresh", pc)
		}
	case *ssa.Slice:
		fr.vals[ins] = fr.sliceOp(st, pc, ins)
	case *ssa.Lookup:
		e.readInv = e.pure == 0
		defer func() { e.readInv = false }()
		mv := fr.get(st, ins.X)
		m := e.toTerm(st, mv)
		k := e.toTerm(st, fr.get(st, ins.Index))
		if m.Sort == SString {
			fr.safety("index", ins.Pos(), pc, And(Cmp("<=", IntLit(0), k), Cmp("<", k, App(SInt, "str.len", m))), "string index in range")
			fr.vals[ins] = termVal(App(SInt, "str.to_code", App(SString, "str.at", m, k)))
			return true
		}
		d := u.DT(m.Sort)
		has := u.MHas(m, k)
		val := Ite(has, u.MGet(m, k), u.Zero(d.Elem))
		vv := e.wrap(st, e.name("lk", val), labelOf(mv))
		if ins.CommaOk {
			fr.vals[ins] = Val{K: vTuple, Tup: []Val{vv, termVal(has)}}
		} else {
			fr.vals[ins] = vv
		}
	case *ssa.MapUpdate:
		m := fr.get(st, ins.Map)
		k := e.toTerm(st, fr.get(st, ins.Key))
		v := e.toTerm(st, fr.coerceNil(st, fr.get(st, ins.Value), ins.Value.Type()))
		if m.K != vMap {
			e.fail("%s: MapUpdate on non-map", fr.key)
			return true
		}
		if e.prov != nil {
			e.prov.write(e, m.R, ins.Pos(), "map update")
		}
		m.R.ElemLabel = joinLabel(elemLabel(m.R), plainLabel(labelOf(fr.get(st, ins.Value))))
		cur := st.mem[m.R]
		has := u.MHas(cur, k)
		st.mem[m.R] = e.name("mu", u.MkMap(m.S,
			App(u.MDom(cur).Sort, "store", u.MDom(cur), k, True),
			App(u.MVal(cur).Sort, "store", u.MVal(cur), k, v),
			Ite(has, u.MCard(cur), Arith("+", u.MCard(cur), IntLit(1)))))
	case *ssa.MakeMap:
		s := e.p.sortOf(ins.Type())
		fr.vals[ins] = e.wrap(st, u.Zero(s), "fresh")
	case *ssa.MakeSlice:
		ln := e.toTerm(st, fr.get(st, ins.Len))
		cp := e.toTerm(st, fr.get(st, ins.Cap))
		fr.safety("make", ins.Pos(), pc, And(Cmp("<=", IntLit(0), ln), Cmp("<=", ln, cp)), "make: 0 <= len <= cap")
		s := e.p.sortOf(ins.Type())
		d := u.DT(s)
		r := e.newRoot("mk", 1, d.Elem, "fresh")
		st.mem[r] = Term{fmt.Sprintf("((as const (Array Int %s)) %s)", d.Elem, u.Zero(d.Elem).S), u.ArrSort(d.Elem)}
		fr.vals[ins] = Val{K: vSlice, R: r, Off: IntLit(0), Len: ln, S: s}
	case *ssa.MakeClosure:
		var binds []Val
		for _, b := range ins.Bindings {
			binds = append(binds, fr.get(st, b))
		}
		fr.vals[ins] = Val{K: vClo, Fn: ins.Fn.(*ssa.Function), Binds: binds}
	case *ssa.MakeInterface:
		x := fr.get(st, ins.X)
		fr.vals[ins] = labVal(e.makeInterface(st, x, ins.X.Type(), ins.Type()), plainLabel(labelOf(x)))
	case *ssa.ChangeInterface:
		xv := fr.get(st, ins.X)
		x := e.toTerm(st, xv)
		fr.vals[ins] = labVal(e.changeInterface(x, e.p.sortOf(ins.Type())), labelOf(xv))
	case *ssa.ChangeType:
		x := fr.get(st, ins.X)
		if x.K == vSlice || x.K == vMap {
			x.S = e.p.sortOf(ins.Type())
		}
		fr.vals[ins] = x
	case *ssa.Convert:
		fr.vals[ins] = fr.convert(st, pc, ins)
	case *ssa.TypeAssert:
		e.readInv = e.pure == 0
		fr.typeAssert(st, pc, ins)
		e.readInv = false
	case *ssa.Extract:
		t := fr.get(st, ins.Tuple)
		if t.K != vTuple || ins.Index >= len(t.Tup) {
			e.fail("%s: extract from non-tuple %s", fr.key, ins.Tuple.Name())
			fr.vals[ins] = e.freshVal(st, "extract", ins.Type(), "fresh", pc)
			return true
		}
		fr.vals[ins] = t.Tup[ins.Index]
	case *ssa.Range:
		x := fr.get(st, ins.X)
		it := &mapIter{Map: x}
		if x.K == vTerm && x.T.Sort == SString {
			it.IsStr = true
			it.Str = x.T
			e.note("range over string is not modelled")
		} else if x.K == vMap {
			d := u.DT(x.S)
			r := e.newRoot("visited", 0, "", "fresh")
			st.cell[r] = termVal(Term{fmt.Sprintf("((as const (Array %s Bool)) false)", d.Key), Sort(fmt.Sprintf("(Array %s Bool)", d.Key))})
			it.visRoot = r
			if !fr.mapResizedInLoop(ins) {
				c := e.newRoot("itercount", 0, "", "fresh")
				st.cell[c] = termVal(IntLit(0))
				it.cntRoot = c
			}
		}
		fr.vals[ins] = Val{K: vIter, Iter: it}
	case *ssa.Next:
		e.readInv = e.pure == 0
		fr.next(st, pc, ins)
		e.readInv = false
	case *ssa.Call:
		fr.vals[ins] = fr.call(st, pc, ins)
	default:
		e.fail("%s: unsupported instruction %T: %s", fr.key, ins, ins)
		if v, ok := ins.(ssa.Value); ok {
			fr.vals[v] = e.freshVal(st, "unsup", v.Type(), "fresh", pc)
		}
	}
	return true
}

// coerceNil turns an untyped nil into the zero value of the target type.
func (fr *Frame) coerceNil(st *State, v Val, t types.Type) Val {
	if v.K == vTerm && v.T.Sort == "Nil" {
		return fr.e.zeroVal(st, t)
	}
	return v
}

func (fr *Frame) next(st *State, pc Term, ins *ssa.Next) {
	e := fr.e
	u := e.p.U
	iv := fr.get(st, ins.Iter)
	if iv.K != vIter || iv.Iter.IsStr || iv.Iter.visRoot == nil {
		fr.vals[ins] = e.freshVal(st, "next", ins.Type(), "fresh", pc)
		return
	}
	it := iv.Iter
	m := e.toTerm(st, it.Map)
	d := u.DT(m.Sort)
	ok := e.fresh("next_ok", SBool)
	k := e.fresh("next_k", d.Key)
	vis := st.cell[it.visRoot].T
	e.assume(Implies(ok, And(u.MHas(m, k), Not(App(SBool, "select", vis, k)))))
	q := Term{"qk", d.Key}
	e.assume(Implies(Not(ok), T(SBool, "(forall ((qk %s)) (=> %s %s))", d.Key, u.MHas(m, q).S, App(SBool, "select", vis, q).S)))
	st.cell[it.visRoot] = termVal(e.name("vis", Ite(ok, App(vis.Sort, "store", vis, k, True), vis)))
	if it.cntRoot != nil {
		// Go semantics: a range over a map that is not resized inside the loop produces each of its
		// len(m) keys exactly once, so before the k-th key is produced 0 <= k < len(m)
		cnt := st.cell[it.cntRoot].T
		e.assume(And(Cmp("<=", IntLit(0), cnt), Cmp("<=", cnt, u.MCard(m))))
		e.assume(Implies(ok, Cmp("<", cnt, u.MCard(m))))
		st.cell[it.cntRoot] = termVal(e.name("itercount", Ite(ok, Arith("+", cnt, IntLit(1)), cnt)))
	}
	v := e.wrap(st, u.MGet(m, k), labelOf(it.Map))
	kv := termVal(k)
	if m.Sort == "MapYaml" {
		kv = termVal(App(SAny, "ykey", m, k))
		// element validity of yaml maps: validYaml(m) means every value is a valid native value
		if vy, va := e.p.SpecFuncs["validYaml"], e.p.SpecFuncs["validAny"]; vy != nil && va != nil {
			if a, err := e.specCall(st, vy, []Term{m}); err == nil {
				if b, err := e.specCall(st, va, []Term{u.MGet(m, k)}); err == nil {
					e.assume(Implies(And(ok, a), b))
				}
			}
		}
	}
	fr.vals[ins] = Val{K: vTuple, Tup: []Val{termVal(ok), kv, v}}
}

func (fr *Frame) binop(st *State, pc Term, ins *ssa.BinOp) Val {
	e := fr.e
	xv := fr.get(st, ins.X)
	yv := fr.get(st, ins.Y)
	// nil comparisons
	if ins.Op == token.EQL || ins.Op == token.NEQ {
		var r Term
		done := false
		if xv.K == vTerm && xv.T.Sort == "Nil" {
			xv, yv = yv, xv
		}
		if yv.K == vTerm && yv.T.Sort == "Nil" {
			done = true
			switch xv.K {
			case vSlice:
				// nil-ness of slices is not modelled: treat `s == nil` as len(s)==0 is unsound; use fresh bool
				e.note("slice nil comparison abstracted")
				r = e.fresh("slicenil", SBool)
			case vMap:
				e.note("map nil comparison abstracted")
				r = e.fresh("mapnil", SBool)
			case vAddr:
				if xv.NilAddr {
					r = True
				} else {
					r = False
				}
			case vTerm:
				r = Eq(xv.T, e.p.U.Zero(xv.T.Sort))
			case vClo:
				r = False
			default:
				r = e.fresh("nilcmp", SBool)
			}
		}
		if done {
			if ins.Op == token.NEQ {
				r = Not(r)
			}
			return termVal(r)
		}
	}
	x := e.toTerm(st, xv)
	y := e.toTerm(st, yv)
	e.mapCardFacts(x, y)
	switch ins.Op {
	case token.EQL:
		return termVal(Eq(x, y))
	case token.NEQ:
		return termVal(Not(Eq(x, y)))
	}
	if x.Sort == SString {
		switch ins.Op {
		case token.ADD:
			return termVal(App(SString, "str.++", x, y))
		case token.LSS:
			return termVal(App(SBool, "str.<", x, y))
		case token.LEQ:
			return termVal(App(SBool, "str.<=", x, y))
		case token.GTR:
			return termVal(App(SBool, "str.<", y, x))
		case token.GEQ:
			return termVal(App(SBool, "str.<=", y, x))
		}
	}
	switch ins.Op {
	case token.ADD:
		return termVal(Arith("+", x, y))
	case token.SUB:
		return termVal(Arith("-", x, y))
	case token.MUL:
		return termVal(Arith("*", x, y))
	case token.QUO:
		if x.Sort == SInt {
			fr.safety("div", ins.Pos(), pc, Not(Eq(y, IntLit(0))), "division by zero")
			// Go truncates toward zero
			return termVal(e.name("quo", T(SInt, "(ite (>= %s 0) (div %s %s) (- (div (- %s) %s)))", x.S, x.S, y.S, x.S, y.S)))
		}
		return termVal(Arith("/", x, y))
	case token.REM:
		fr.safety("div", ins.Pos(), pc, Not(Eq(y, IntLit(0))), "division by zero")
		return termVal(e.name("rem", T(SInt, "(ite (>= %s 0) (mod %s %s) (- (mod (- %s) %s)))", x.S, x.S, y.S, x.S, y.S)))
	case token.LSS:
		return termVal(Cmp("<", x, y))
	case token.LEQ:
		return termVal(Cmp("<=", x, y))
	case token.GTR:
		return termVal(Cmp(">", x, y))
	case token.GEQ:
		return termVal(Cmp(">=", x, y))
	case token.LAND, token.LOR:
	}
	if x.Sort == SBool {
		switch ins.Op {
		case token.AND:
			return termVal(And(x, y))
		case token.OR:
			return termVal(Or(x, y))
		}
	}
	e.note("unmodelled binary op %s on %s", ins.Op, x.Sort)
	return e.freshVal(st, "binop", ins.Type(), "fresh", pc)
}

func (fr *Frame) sliceOp(st *State, pc Term, ins *ssa.Slice) Val {
	e := fr.e
	u := e.p.U
	x := fr.get(st, ins.X)
	var lo, hi Term
	hasLo, hasHi := ins.Low != nil, ins.High != nil
	if hasLo {
		lo = e.toTerm(st, fr.get(st, ins.Low))
	} else {
		lo = IntLit(0)
	}
	if x.K == vTerm && x.T.Sort == SString {
		n := App(SInt, "str.len", x.T)
		if hasHi {
			hi = e.toTerm(st, fr.get(st, ins.High))
		} else {
			hi = n
		}
		fr.safety("slice", ins.Pos(), pc, And(Cmp("<=", IntLit(0), lo), Cmp("<=", lo, hi), Cmp("<=", hi, n)), "string slice bounds")
		return termVal(App(SString, "str.substr", x.T, lo, Arith("-", hi, lo)))
	}
	switch x.K {
	case vSlice:
		if hasHi {
			hi = e.toTerm(st, fr.get(st, ins.High))
		} else {
			hi = x.Len
		}
		fr.safety("slice", ins.Pos(), pc, And(Cmp("<=", IntLit(0), lo), Cmp("<=", lo, hi), Cmp("<=", hi, x.Len)), "slice bounds (capacity approximated by length)")
		// x[lo:hi] with an explicit hi keeps spare capacity inside x: a later append overwrites x's elements
		return Val{K: vSlice, R: x.R, Off: e.name("off", Arith("+", x.Off, lo)), Len: e.name("len", Arith("-", hi, lo)), S: e.p.sortOf(ins.Type()),
			SubOf: x.SubOf || (hasHi && ins.Max == nil)}
	case vAddr:
		if x.R.Kind == 1 && len(x.Path) == 0 {
			n := IntLit(int64(x.R.N))
			if hasHi {
				hi = e.toTerm(st, fr.get(st, ins.High))
			} else {
				hi = n
			}
			fr.safety("slice", ins.Pos(), pc, And(Cmp("<=", IntLit(0), lo), Cmp("<=", lo, hi), Cmp("<=", hi, n)), "array slice bounds")
			return Val{K: vSlice, R: x.R, Off: lo, Len: Arith("-", hi, lo), S: u.SliceOf(x.R.Elem)}
		}
		if cv, ok := st.cell[x.R]; ok && x.R.Kind == 0 && cv.K == vTerm && cv.T.Sort == SHash && len(x.Path) == 0 && !hasLo && !hasHi {
			// h[:] of a [8]byte: the eight bytes of the hash as a function of its value
			rs := e.p.sortOf(ins.Type())
			e.declareFun("hash_bytes", []Sort{SHash}, rs)
			r := App(rs, "hash_bytes", cv.T)
			e.assume(Eq(u.SLen(r), IntLit(8)))
			return e.wrap(st, r, "fresh")
		}
		if x.R.Kind == 0 {
			// slice of a [N]T held in a cell (e.g. Hash8): abstract
			e.note("slice of array in cell abstracted (%s)", ins.X.Type())
			return e.freshVal(st, "arrslice", ins.Type(), "fresh", pc)
		}
	}
	e.note("unmodelled slice of %s", ins.X.Type())
	return e.freshVal(st, "slice", ins.Type(), "fresh", pc)
}

func (fr *Frame) convert(st *State, pc Term, ins *ssa.Convert) Val {
	e := fr.e
	x := fr.get(st, ins.X)
	from := e.p.sortOf(ins.X.Type())
	to := e.p.sortOf(ins.Type())
	if from == to {
		if x.K == vSlice || x.K == vMap {
			x.S = to
		}
		return x
	}
	t := e.toTerm(st, x)
	switch {
	case from == SInt && to == SReal:
		return termVal(ToReal(t))
	case from == SReal && to == SInt:
		// truncation toward zero; out-of-range values are not modelled
		return termVal(e.name("trunc", T(SInt, "(ite (>= %s 0.0) (to_int %s) (- (to_int (- %s))))", t.S, t.S, t.S)))
	case from == SString && e.p.U.IsSlice(to):
		e.declareFun("bytes_of_string", []Sort{SString}, to)
		r := App(to, "bytes_of_string", t)
		e.assume(Eq(e.p.U.SLen(r), App(SInt, "str.len", t)))
		// converting back yields the same string
		e.declareFun("string_of_bytes_"+string(to), []Sort{to}, SString)
		e.assume(Eq(App(SString, "string_of_bytes_"+string(to), r), t))
		return e.wrap(st, r, "fresh")
	case e.p.U.IsSlice(from) && to == SString:
		e.declareFun("string_of_bytes_"+string(from), []Sort{from}, SString)
		return termVal(App(SString, "string_of_bytes_"+string(from), t))
	case from == SInt && to == SString:
		e.declareFun("string_of_rune", []Sort{SInt}, SString)
		return termVal(App(SString, "string_of_rune", t))
	}
	e.note("unmodelled conversion %s -> %s", ins.X.Type(), ins.Type())
	return e.freshVal(st, "conv", ins.Type(), "fresh", pc)
}

// ---------------------------------------------------------------------
// Interfaces

// concreteToIface builds the interface-sorted term for a concrete value.
func (e *Exec) makeInterface(st *State, x Val, from types.Type, to types.Type) Term {
	ts := e.p.sortOf(to)
	name := namedName(from)
	if p, ok := from.(*types.Pointer); ok {
		name = "*" + namedName(p.Elem())
	}
	if d := e.p.U.DT(ts); d != nil && d.Kind == "iface" {
		for _, f := range d.Fields {
			if f.Name == name {
				return App(ts, fmt.Sprintf("mk_%s_%s", ts, name), e.toTerm(st, x))
			}
		}
	}
	switch ts {
	case SNode:
		if t, ok := e.nodeOf(st, x, name); ok {
			return t
		}
	case SPE:
		if t, ok := e.pathElemOf(st, x, name); ok {
			return t
		}
	case SOpt:
		if t, ok := e.optOf(st, x, name); ok {
			return t
		}
	case SErr:
		c := e.fresh("err", SInt)
		return App(SErr, "e_mk", c)
	case SAny:
		if t, ok := e.nodeOf(st, x, name); ok {
			return App(SAny, "a_node", t)
		}
		if t, ok := e.pathElemOf(st, x, name); ok {
			return App(SAny, "a_pe", t)
		}
		fs := e.p.sortOf(from)
		if name == "" || name == "string" || name == "int" || name == "float64" || name == "bool" {
			xt := e.toTerm(st, x)
			switch fs {
			case SBool:
				return App(SAny, "a_bool", xt)
			case SInt:
				if b, ok := from.Underlying().(*types.Basic); ok && b.Kind() == types.Int {
					return App(SAny, "a_int", xt)
				}
			case SReal:
				if b, ok := from.Underlying().(*types.Basic); ok && b.Kind() == types.Float64 {
					return App(SAny, "a_real", xt)
				}
			case SString:
				return App(SAny, "a_str", xt)
			case SHash:
				return App(SAny, "a_hash", xt)
			case "SliceAny":
				return App(SAny, "a_slice", xt)
			case "MapAny":
				return App(SAny, "a_map", xt)
			}
		}
		if fs == SHash {
			return App(SAny, "a_hash", e.toTerm(st, x))
		}
		// other concrete types: opaque with a per-type tag
		c := e.fresh("any", SInt)
		return App(SAny, "a_other", c, IntLit(int64(e.typeTag(from))))
	}
	e.note("unmodelled MakeInterface %s -> %s", from, to)
	return e.fresh("iface", ts)
}

func (e *Exec) typeTag(t types.Type) int {
	if e.typeTags == nil {
		e.typeTags = map[string]int{}
	}
	k := t.String()
	if v, ok := e.typeTags[k]; ok {
		return v
	}
	e.typeTags[k] = len(e.typeTags) + 1
	return e.typeTags[k]
}

func (e *Exec) nodeOf(st *State, x Val, name string) (Term, bool) {
	mk := func(kind int) (Term, bool) {
		return App(SNode, "n_arr", IntLit(int64(kind)), e.asSort(e.toTerm(st, x), "SliceNode")), true
	}
	switch name {
	case "jsonArray":
		return mk(KArray)
	case "jsonList":
		return mk(KList)
	case "jsonSet":
		return mk(KSet)
	case "jsonMultiset":
		return mk(KMultiset)
	case "jsonObject":
		return App(SNode, "n_obj", e.toTerm(st, x)), true
	case "jsonString":
		return App(SNode, "n_str", e.toTerm(st, x)), true
	case "jsonStringOrInteger":
		return App(SNode, "n_sori", e.toTerm(st, x)), true
	case "jsonNumber":
		return App(SNode, "n_num", e.toTerm(st, x)), true
	case "jsonBool":
		return App(SNode, "n_bool", e.toTerm(st, x)), true
	case "jsonNull":
		return Term{"n_null", SNode}, true
	case "voidNode":
		return Term{"n_void", SNode}, true
	}
	return Term{}, false
}

func (e *Exec) asSort(t Term, s Sort) Term {
	if t.Sort == s {
		return t
	}
	u := e.p.U
	if u.IsSlice(t.Sort) && u.IsSlice(s) && u.DT(t.Sort).Elem == u.DT(s).Elem {
		return u.MkSlice(s, u.SArr(t), u.SLen(t))
	}
	panic(fmt.Sprintf("asSort: %s -> %s", t.Sort, s))
}

func (e *Exec) pathElemOf(st *State, x Val, name string) (Term, bool) {
	switch name {
	case "PathKey":
		return App(SPE, "pe_key", e.toTerm(st, x)), true
	case "PathIndex":
		return App(SPE, "pe_idx", e.toTerm(st, x)), true
	case "PathAllKeys":
		return Term{"pe_allkeys", SPE}, true
	case "PathSet":
		return Term{"pe_set", SPE}, true
	case "PathMultiset":
		return Term{"pe_mset", SPE}, true
	case "PathSetKeys":
		return App(SPE, "pe_setkeys", e.toTerm(st, x)), true
	case "PathMultisetKeys":
		return App(SPE, "pe_msetkeys", e.toTerm(st, x)), true
	case "PathAllValues":
		return Term{"pe_allvalues", SPE}, true
	}
	return Term{}, false
}

func (e *Exec) optOf(st *State, x Val, name string) (Term, bool) {
	switch name {
	case "mergeOption":
		return Term{"o_merge", SOpt}, true
	case "setOption":
		return Term{"o_set", SOpt}, true
	case "multisetOption":
		return Term{"o_mset", SOpt}, true
	case "colorOption":
		return Term{"o_color", SOpt}, true
	case "precisionOption":
		xt := e.toTerm(st, x)
		return App(SOpt, "o_precision", e.p.U.Field(xt, 0)), true
	case "setKeysOption":
		return App(SOpt, "o_setkeys", e.asSort(e.toTerm(st, x), "SliceString")), true
	case "pathOption":
		return App(SOpt, "o_path", e.fresh("popt", SInt)), true
	}
	return Term{}, false
}

func (e *Exec) changeInterface(x Term, to Sort) Term {
	if x.Sort == to {
		return x
	}
	switch {
	case x.Sort == SNode && to == SAny:
		return Ite(Eq(x, Term{"n_nil", SNode}), Term{"a_nil", SAny}, App(SAny, "a_node", x))
	case x.Sort == SPE && to == SAny:
		return Ite(Eq(x, Term{"pe_nil", SPE}), Term{"a_nil", SAny}, App(SAny, "a_pe", x))
	case x.Sort == SErr && to == SAny:
		return Ite(Eq(x, Term{"e_nil", SErr}), Term{"a_nil", SAny}, App(SAny, "a_other", App(SInt, "eid", x), IntLit(0)))
	}
	e.note("unmodelled ChangeInterface %s -> %s", x.Sort, to)
	return e.fresh("chg", to)
}

// assertTo returns (ok, value) for asserting interface term x to Go type t.
func (e *Exec) assertTo(st *State, x Term, t types.Type, lab string) (Term, Val, bool) {
	_ = e.p.U
	name := namedName(t)
	is := func(c string, t Term) Term { return App(SBool, "(_ is "+c+")", t) }
	if d := e.p.U.DT(x.Sort); d != nil && d.Kind == "iface" {
		for _, f := range d.Fields {
			if f.Name == name {
				ok := is(fmt.Sprintf("mk_%s_%s", x.Sort, name), x)
				return ok, e.wrap(st, App(f.Sort, f.Sel, x), lab), true
			}
		}
		if it, isI := t.Underlying().(*types.Interface); isI {
			// assertion to another interface: succeeds for the implementers of that interface
			var alts []Term
			for _, f := range d.Fields {
				for _, nm := range []string{f.Name} {
					if obj := e.p.Pkg.Types.Scope().Lookup(nm); obj != nil && types.Implements(obj.Type(), it) {
						alts = append(alts, is(fmt.Sprintf("mk_%s_%s", x.Sort, f.Name), x))
					}
				}
			}
			ts := e.p.sortOf(t)
			if ts == x.Sort {
				return Or(alts...), termVal(x), true
			}
		}
		return False, e.freshVal(st, "asrt", t, "fresh", True), true
	}
	node := x
	nodeOK := True
	pe := x
	peOK := True
	if x.Sort == SAny {
		node = App(SNode, "an", x)
		nodeOK = is("a_node", x)
		pe = App(SPE, "ape", x)
		peOK = is("a_pe", x)
	}
	arr := func(kind int) (Term, Val, bool) {
		ok := And(nodeOK, is("n_arr", node), Eq(App(SInt, "kind", node), IntLit(int64(kind))))
		v := e.wrap(st, e.asSort(App("SliceNode", "elems", node), e.p.sortOf(t)), lab)
		return ok, v, true
	}
	if x.Sort == SNode || x.Sort == SAny {
		switch name {
		case "jsonArray":
			return arr(KArray)
		case "jsonList":
			return arr(KList)
		case "jsonSet":
			return arr(KSet)
		case "jsonMultiset":
			return arr(KMultiset)
		case "jsonObject":
			return And(nodeOK, is("n_obj", node)), e.wrap(st, App("MapNode", "ov", node), lab), true
		case "jsonString":
			return And(nodeOK, is("n_str", node)), termVal(App(SString, "sv", node)), true
		case "jsonStringOrInteger":
			return And(nodeOK, is("n_sori", node)), termVal(App(SString, "soriv", node)), true
		case "jsonNumber":
			return And(nodeOK, is("n_num", node)), termVal(App(SReal, "nv", node)), true
		case "jsonBool":
			return And(nodeOK, is("n_bool", node)), termVal(App(SBool, "bv", node)), true
		case "jsonNull":
			return And(nodeOK, is("n_null", node)), e.zeroVal(st, t), true
		case "voidNode":
			return And(nodeOK, is("n_void", node)), e.zeroVal(st, t), true
		case "JsonNode":
			if x.Sort == SAny {
				return nodeOK, termVal(node), true
			}
			return Not(Eq(x, Term{"n_nil", SNode})), termVal(x), true
		}
	}
	if x.Sort == SPE || x.Sort == SAny {
		switch name {
		case "PathKey":
			return And(peOK, is("pe_key", pe)), termVal(App(SString, "pk", pe)), true
		case "PathIndex":
			return And(peOK, is("pe_idx", pe)), termVal(App(SInt, "pi", pe)), true
		case "PathAllKeys":
			return And(peOK, is("pe_allkeys", pe)), e.zeroVal(st, t), true
		case "PathSet":
			return And(peOK, is("pe_set", pe)), e.zeroVal(st, t), true
		case "PathMultiset":
			return And(peOK, is("pe_mset", pe)), e.zeroVal(st, t), true
		case "PathSetKeys":
			return And(peOK, is("pe_setkeys", pe)), e.wrap(st, App("MapNode", "psk", pe), lab), true
		case "PathMultisetKeys":
			return And(peOK, is("pe_msetkeys", pe)), e.wrap(st, App("MapNode", "pmk", pe), lab), true
		case "PathAllValues":
			return And(peOK, is("pe_allvalues", pe)), e.zeroVal(st, t), true
		}
	}
	if x.Sort == SOpt {
		switch name {
		case "mergeOption":
			return is("o_merge", x), e.zeroVal(st, t), true
		case "setOption":
			return is("o_set", x), e.zeroVal(st, t), true
		case "multisetOption":
			return is("o_mset", x), e.zeroVal(st, t), true
		case "colorOption":
			return is("o_color", x), e.zeroVal(st, t), true
		case "precisionOption":
			s := e.p.sortOf(t)
			return is("o_precision", x), termVal(App(s, "mk_"+string(s), App(SReal, "oprec", x))), true
		case "setKeysOption":
			return is("o_setkeys", x), e.wrap(st, e.asSort(App("SliceString", "okeys", x), e.p.sortOf(t)), lab), true
		case "pathOption":
			return is("o_path", x), e.freshVal(st, "popt", t, "fresh", True), true
		}
	}
	if x.Sort == SAny {
		if b, ok := t.(*types.Basic); ok {
			switch b.Kind() {
			case types.String:
				return is("a_str", x), termVal(App(SString, "astr", x)), true
			case types.Int:
				return is("a_int", x), termVal(App(SInt, "ai", x)), true
			case types.Float64:
				return is("a_real", x), termVal(App(SReal, "ar", x)), true
			case types.Bool:
				return is("a_bool", x), termVal(App(SBool, "ab", x)), true
			}
		}
		s := e.p.sortOf(t)
		switch s {
		case "SliceAny":
			if _, isNamed := t.(*types.Named); !isNamed {
				return is("a_slice", x), e.wrap(st, App("SliceAny", "asl", x), lab), true
			}
		case "MapAny":
			if _, isNamed := t.(*types.Named); !isNamed {
				return is("a_map", x), e.wrap(st, App("MapAny", "am", x), lab), true
			}
		case "MapYaml":
			return is("a_ymap", x), e.wrap(st, App("MapYaml", "aym", x), lab), true
		case SHash:
			return is("a_hash", x), termVal(App(SHash, "ah", x)), true
		}
		if it, ok := t.Underlying().(*types.Interface); ok && it.NumMethods() == 0 {
			return True, termVal(x), true
		}
		// other concrete types: tag comparison
		ok := And(is("a_other", x), Eq(App(SInt, "aotag", x), IntLit(int64(e.typeTag(t)))))
		return ok, e.freshVal(st, "asrt", t, "fresh", True), true
	}
	return Term{}, Val{}, false
}

func (fr *Frame) typeAssert(st *State, pc Term, ins *ssa.TypeAssert) {
	e := fr.e
	xv := fr.get(st, ins.X)
	x := e.toTerm(st, xv)
	ok, v, sup := e.assertTo(st, x, ins.AssertedType, labelOf(xv))
	if v.K == vTerm && v.Lab == "" {
		v.Lab = labelOf(xv)
	}
	if !sup {
		e.note("unmodelled type assertion %s.(%s)", ins.X.Type(), ins.AssertedType)
		ok = e.fresh("assert_ok", SBool)
		v = e.freshVal(st, "assert", ins.AssertedType, "fresh", pc)
	}
	ok = e.name("isT", ok)
	if ins.CommaOk {
		// on failure the value is the zero value
		if v.K == vTerm {
			v = labVal(Ite(ok, v.T, e.p.U.Zero(v.T.Sort)), v.Lab)
		}
		fr.vals[ins] = Val{K: vTuple, Tup: []Val{v, termVal(ok)}}
		return
	}
	fr.safety("type-assert", ins.Pos(), pc, ok, "type assertion "+ins.AssertedType.String())
	fr.vals[ins] = v
}

func isStringType(t types.Type) bool {
	b, ok := t.Underlying().(*types.Basic)
	return ok && b.Info()&types.IsString != 0
}

var _ = strings.Contains

// mapCardFacts: when the cardinalities of two maps are compared, make the finite-set facts
// relating cardinality and domain available for that pair (mathematical axioms, listed in the
// trusted base): equal domains have equal cardinality; equal cardinality plus inclusion gives
// equal domains.
func (e *Exec) mapCardFacts(x, y Term) {
	const pre = "(card_"
	if !strings.HasPrefix(x.S, pre) || !strings.HasPrefix(y.S, pre) || x.S == y.S || e.binder > 0 {
		return
	}
	ms := func(t Term) (Term, bool) {
		sp := strings.Index(t.S, " ")
		if sp < 0 {
			return Term{}, false
		}
		sort := Sort(t.S[len(pre):sp])
		if !e.p.U.IsMap(sort) {
			return Term{}, false
		}
		return Term{t.S[sp+1 : len(t.S)-1], sort}, true
	}
	m1, ok1 := ms(x)
	m2, ok2 := ms(y)
	if !ok1 || !ok2 || m1.Sort != m2.Sort {
		return
	}
	key := m1.S + "|" + m2.S
	if e.cardFacts == nil {
		e.cardFacts = map[string]bool{}
	}
	if e.cardFacts[key] {
		return
	}
	e.cardFacts[key] = true
	u := e.p.U
	ks := u.DT(m1.Sort).Key
	d1, d2 := u.MDom(m1).S, u.MDom(m2).S
	e.note("finite-set axioms assumed for a pair of maps whose lengths are compared")
	e.assume(T(SBool, "(=> (forall ((k %s)) (= (select %s k) (select %s k))) (= %s %s))", ks, d1, d2, x.S, y.S))
	e.assume(T(SBool, "(=> (and (= %s %s) (forall ((k %s)) (=> (select %s k) (select %s k)))) (forall ((k %s)) (=> (select %s k) (select %s k))))",
		x.S, y.S, ks, d1, d2, ks, d2, d1))
}

// mapResizedInLoop: some instruction of the function inserts into or deletes from the map that r
// ranges over (then the number of iterations is not len(m)).
func (fr *Frame) mapResizedInLoop(r *ssa.Range) bool {
	// the loop is the one whose head holds the Next of this iterator
	var li *LoopInfo
	if refs := r.Referrers(); refs != nil {
		for _, ref := range *refs {
			if nx, ok := ref.(*ssa.Next); ok && nx.Block() != nil {
				li = fr.loops[nx.Block()]
			}
		}
	}
	if li == nil {
		return true
	}
	for _, b := range fr.fn.Blocks {
		if b != li.Head && !li.Body[b] {
			continue
		}
		for _, ins := range b.Instrs {
			switch ins := ins.(type) {
			case *ssa.MapUpdate:
				if ins.Map == r.X {
					return true
				}
			case ssa.CallInstruction:
				c := ins.Common()
				if bi, ok := c.Value.(*ssa.Builtin); ok && bi.Name() == "delete" && len(c.Args) > 0 && c.Args[0] == r.X {
					return true
				}
			}
		}
	}
	return false
}
