package main

import (
	"os"
	"fmt"
	"go/token"
	"go/types"
	"sort"
	"strings"

	"golang.org/x/tools/go/ssa"
)

// ---------------------------------------------------------------------
// Values

const (
	vNone = iota
	vTerm
	vSlice
	vMap
	vAddr
	vClo
	vTuple
	vIter
)

type Root struct {
	ID    int
	Name  string
	Kind  int  // 0 cell, 1 array backing store, 2 map
	Elem  Sort // element sort for array roots; map sort for map roots
	N     int  // static length for [N]T allocations (else -1)
	Label string // provenance of the storage itself
	ElemLabel string // provenance of what the stored elements may reference ("" = same as Label)
	ElemOwn   string // provenance of the own storage of slices/maps nested in the elements ("" = same as ElemLabel)
}

type Step struct {
	IsField bool
	Field   int
	Index   Term
}

type Val struct {
	K        int
	T        Term
	R        *Root
	Off, Len Term
	S        Sort // slice sort / map sort
	Path     []Step
	Fn       *ssa.Function
	Binds    []Val
	Tup      []Val
	NilAddr  bool
	Iter     *mapIter
	Lab      string // provenance of a term value (what it may reference)
	FLab     map[int]string // per-field provenance overrides for struct terms (deep)
	FOwn     map[int]string // per-field provenance of the field's own storage (slices/maps)
	Own      string         // provenance of storage owned by a term value (when it differs from Lab)
	SubOf    bool           // slice view that stops before the end of its parent view (x[:k]): append writes in place
}

type mapIter struct {
	Map     Val
	IsStr   bool
	Str     Term
	ID      int
	visRoot *Root
	cntRoot *Root // ghost: number of keys this range loop has produced so far
}

type State struct {
	mem  map[*Root]Term
	cell map[*Root]Val
}

func newState() *State { return &State{mem: map[*Root]Term{}, cell: map[*Root]Val{}} }

func (s *State) clone() *State {
	n := newState()
	for k, v := range s.mem {
		n.mem[k] = v
	}
	for k, v := range s.cell {
		n.cell[k] = v
	}
	return n
}

// ---------------------------------------------------------------------
// Obligations

type Obligation struct {
	Name     string
	Kind     string // safety, requires, ensures, inv-init, inv-preserved, decreases, lemma, cover, modifies...
	Func     string
	Pos      string
	PC       Term
	Goal     Term
	NAssume  int
	NDecl    int
	Detail   string
	Carries  []string
	ExpectSat bool // cover obligations
	// results
	Status  string // unsat, sat, unknown, timeout, error
	Solver  string
	TimeS   float64
	Output  string
	SMTPath string
	Block     int
	WeakModel string // model of the quantifier-free weakening (candidate counterexample)
}

// Exec is the verification context for one function under contract.
type Exec struct {
	retainsSeen map[string]bool
	p        *Program
	decls    []string
	declared map[string]bool
	assumes  []Term
	obls     []*Obligation
	nfresh   int
	nroot    int
	pure     int // >0: spec mode, no obligations
	binder   int // >0: inside quantifier, no naming
	depth    int
	fnKey    string
	contract *Contract
	fuel     int
	specApps map[string]int
	notes    map[string]bool // unmodelled things encountered
	callStack []string
	errors   []string
	prov     *provCtx
	curPC    Term
	curPos   token.Pos
	globals  map[*ssa.Global]*Root
	globalInit map[*ssa.Global]Term
	typeTags map[string]int
	externals map[string]bool
	unfold   int
	oblNames map[string]int
	// block-based relevance pruning
	curBlock    int           // index of the top-frame block being executed (-1: entry/exit phases)
	assumeBlock []int         // origin block of each assumption
	reach       map[int]map[int]bool // reach[a][b]: block a reaches block b in the top-frame CFG (reflexive)
	specAppBlk  map[string]int
	world       map[string]*Root // ghost world of the CLI effect model: stdout, stderrLines, fileWritten, fileName, fileData, writeErr
	exits       []exitPoint
	lcsArgs     map[string][]Term
	readInv     bool // wrap() is being applied to a value read from memory
	trusted     map[string]bool // trusted (assumed) contracts used
	cardFacts   map[string]bool
	axiomRec    map[string]bool
	axiomIdx    map[string]int
	axioms      map[string]string // definitional axioms of opaque spec functions, by SMT function name
}

func newExec(p *Program, fnKey string) *Exec {
	return &Exec{p: p, declared: map[string]bool{}, fnKey: fnKey, fuel: 2, specApps: map[string]int{}, notes: map[string]bool{},
		curBlock: -1, specAppBlk: map[string]int{}, trusted: map[string]bool{}, retainsSeen: map[string]bool{}}
}

// relevant reports whether an assumption made in block a can matter for an obligation in block b:
// a must reach b in the control-flow graph (entry-phase assumptions, block -1, always matter).
func (e *Exec) relevant(a, b int) bool {
	if a < 0 || b < 0 || e.reach == nil {
		return true
	}
	return e.reach[a][b]
}

func (e *Exec) note(format string, a ...interface{}) {
	e.notes[fmt.Sprintf(format, a...)] = true
}

func (e *Exec) fail(format string, a ...interface{}) {
	e.errors = append(e.errors, fmt.Sprintf(format, a...))
}

func (e *Exec) fresh(prefix string, sort Sort) Term {
	e.nfresh++
	name := fmt.Sprintf("%s!%d", sanitize(prefix), e.nfresh)
	e.decls = append(e.decls, fmt.Sprintf("(declare-const %s %s)", name, sort))
	return Term{name, sort}
}

func (e *Exec) declareFun(name string, args []Sort, ret Sort) {
	if e.declared[name] {
		return
	}
	e.declared[name] = true
	var as []string
	for _, a := range args {
		as = append(as, string(a))
	}
	e.decls = append(e.decls, fmt.Sprintf("(declare-fun %s (%s) %s)", name, strings.Join(as, " "), ret))
}

func (e *Exec) assume(t Term) {
	if t.S == "true" {
		return
	}
	if e.binder > 0 {
		// assumptions under binders cannot be global facts; drop (sound: fewer assumptions)
		return
	}
	e.assumes = append(e.assumes, t)
	e.assumeBlock = append(e.assumeBlock, e.curBlock)
}

// name introduces a constant for a large term.
func (e *Exec) name(prefix string, t Term) Term {
	if e.binder > 0 || len(t.S) < 60 {
		return t
	}
	c := e.fresh(prefix, t.Sort)
	e.assumes = append(e.assumes, Eq(c, t))
	e.assumeBlock = append(e.assumeBlock, e.curBlock)
	return c
}

func (e *Exec) oblige(kind, name string, pos token.Pos, pc, goal Term, detail string) *Obligation {
	if e.pure > 0 {
		return nil
	}
	if goal.S == "true" || pc.S == "false" {
		// trivially discharged; still count it
	}
	if e.oblNames == nil {
		e.oblNames = map[string]int{}
	}
	e.oblNames[name]++
	if n := e.oblNames[name]; n > 1 {
		name = fmt.Sprintf("%s~%d", name, n)
	}
	o := &Obligation{Name: name, Kind: kind, Func: e.fnKey, PC: pc, Goal: goal, NAssume: len(e.assumes), NDecl: len(e.decls), Detail: detail, Block: e.curBlock}
	if pos.IsValid() {
		ps := e.p.Fset.Position(pos)
		o.Pos = fmt.Sprintf("%s:%d", shortFile(ps.Filename), ps.Line)
	}
	if e.contract != nil {
		o.Carries = e.contract.Carries
	}
	e.obls = append(e.obls, o)
	return o
}

func shortFile(f string) string {
	i := strings.LastIndex(f, "/")
	return f[i+1:]
}

func (e *Exec) posStr(pos token.Pos) string {
	if !pos.IsValid() {
		return "?"
	}
	ps := e.p.Fset.Position(pos)
	return fmt.Sprintf("%s:%d", shortFile(ps.Filename), ps.Line)
}

// ---------------------------------------------------------------------
// Roots and values

func (e *Exec) newRoot(name string, kind int, elem Sort, label string) *Root {
	e.nroot++
	return &Root{ID: e.nroot, Name: name, Kind: kind, Elem: elem, N: -1, Label: label}
}

func termVal(t Term) Val { return Val{K: vTerm, T: t} }

func labVal(t Term, lab string) Val { return Val{K: vTerm, T: t, Lab: lab} }

// labelOf: what storage a value may reference (deep provenance).
func labelOf(v Val) string {
	switch v.K {
	case vSlice, vMap:
		if v.R != nil {
			return joinLabel(v.R.Label, elemLabel(v.R))
		}
	case vTerm:
		l := v.Lab
		if l == "" {
			l = "fresh"
		}
		for _, fl := range v.FLab {
			l = joinLabel(l, fl)
		}
		return l
	case vTuple:
		l := "fresh"
		for _, x := range v.Tup {
			l = joinLabel(l, labelOf(x))
		}
		return l
	}
	return "fresh"
}

func elemLabel(r *Root) string {
	if r.ElemLabel != "" {
		return r.ElemLabel
	}
	return r.Label
}

// ownOf: provenance of the storage directly owned by a value (its backing array / map / the
// slices held in its struct fields), as opposed to what it may reference through interfaces.
func ownOf(v Val) string {
	switch v.K {
	case vSlice, vMap:
		if v.R != nil {
			return joinLabel(v.R.Label, elemOwn(v.R))
		}
	case vTerm:
		if !structSorts[v.T.Sort] {
			// interface and scalar values own no slice storage directly
			return "fresh"
		}
		if v.FOwn != nil {
			l := "fresh"
			for _, x := range v.FOwn {
				l = joinLabel(l, x)
			}
			// fields without an override keep the value's general provenance
			if v.Lab != "" && len(v.FOwn) == 0 {
				l = joinLabel(l, v.Lab)
			}
			return l
		}
		if v.Own != "" {
			return v.Own
		}
		if structSorts[v.T.Sort] {
			return labelOf(v)
		}
		// interface and scalar values own no slice storage directly
		return "fresh"
	}
	return "fresh"
}

// structSorts: sorts of struct datatypes (values that directly contain slice/map fields).
var structSorts = map[Sort]bool{}

func elemOwn(r *Root) string {
	if r.ElemOwn != "" {
		return r.ElemOwn
	}
	return r.Label
}

func plainLabel(l string) string {
	return strings.TrimPrefix(l, "spare:")
}

// wrap turns a term into a Val; slice and map sorted terms get a root.
func (e *Exec) wrap(st *State, t Term, label string) Val {
	u := e.p.U
	if u.IsSlice(t.Sort) {
		d := u.DT(t.Sort)
		r := e.newRoot("s", 1, d.Elem, label)
		r.ElemLabel = label
		st.mem[r] = u.SArr(t)
		if e.readInv && e.binder == 0 {
			// type invariant of a slice value read from memory (never assumed for computed sub-slices:
			// a computed length is only non-negative on the paths that actually slice)
			e.assume(Cmp(">=", u.SLen(t), IntLit(0)))
		}
		return Val{K: vSlice, R: r, Off: IntLit(0), Len: u.SLen(t), S: t.Sort, T: t}
	}
	if u.IsMap(t.Sort) {
		r := e.newRoot("m", 2, t.Sort, label)
		st.mem[r] = t
		return Val{K: vMap, R: r, S: t.Sort}
	}
	return labVal(t, label)
}

// wrapOwn is wrap with a separate label for the value's own storage (slices and maps).
func (e *Exec) wrapOwn(st *State, t Term, deep, own string) Val {
	v := e.wrap(st, t, deep)
	if own != "" && v.R != nil {
		v.R.Label = own
		v.R.ElemLabel = deep
		v.R.ElemOwn = own
	}
	if own != "" && v.K == vTerm {
		v.Own = own
	}
	return v
}

func (e *Exec) toTerm(st *State, v Val) Term {
	switch v.K {
	case vTerm:
		return v.T
	case vSlice:
		arr, ok := st.mem[v.R]
		if !ok {
			panic(fmt.Sprintf("toTerm: slice root %s#%d not in state", v.R.Name, v.R.ID))
		}
		if v.T.S != "" && v.T.Sort == v.S {
			// unchanged since it was wrapped: use the original term (avoids eta-expanded copies)
			u := e.p.U
			if arr.S == u.SArr(v.T).S && v.Off.S == "0" && v.Len.S == u.SLen(v.T).S {
				return v.T
			}
		}
		return e.p.U.MkSlice(v.S, e.p.U.Shift(e.p.U.DT(v.S).Elem, arr, v.Off), v.Len)
	case vMap:
		m, ok := st.mem[v.R]
		if !ok {
			panic(fmt.Sprintf("toTerm: map root %s#%d not in state", v.R.Name, v.R.ID))
		}
		return m
	case vTuple:
		panic("toTerm on tuple")
	case vAddr:
		panic("toTerm on address")
	case vClo:
		panic("toTerm on closure")
	}
	panic(fmt.Sprintf("toTerm on kind %d", v.K))
}

// freshVal creates an unconstrained value of the given Go type, with basic type invariants assumed.
func (e *Exec) freshVal(st *State, name string, t types.Type, label string, pc Term) Val {
	if tup, ok := t.(*types.Tuple); ok {
		var vs []Val
		for i := 0; i < tup.Len(); i++ {
			vs = append(vs, e.freshVal(st, fmt.Sprintf("%s_%d", name, i), tup.At(i).Type(), label, pc))
		}
		return Val{K: vTuple, Tup: vs}
	}
	s := e.p.sortOf(t)
	if s == "Func" {
		return Val{K: vNone}
	}
	if strings.HasPrefix(string(s), "Unsupported_") {
		e.note("unsupported type %s", t)
		return Val{K: vNone}
	}
	c := e.fresh(name, s)
	e.assumeTypeInv(c, t)
	v := e.wrap(st, c, label)
	if v.R != nil {
		v.R.ElemLabel = label
	}
	return v
}

// assumeTypeInv assumes representation invariants of a fresh term: slice lengths and offsets are
// non-negative, map cardinalities non-negative, unsigned integers non-negative.
func (e *Exec) assumeTypeInv(c Term, t types.Type) {
	u := e.p.U
	switch {
	case u.IsSlice(c.Sort):
		e.assume(Cmp(">=", u.SLen(c), IntLit(0)))
	case u.IsMap(c.Sort):
		e.assume(Cmp(">=", u.MCard(c), IntLit(0)))
	case c.Sort == SInt && t != nil:
		if b, ok := t.Underlying().(*types.Basic); ok && b.Info()&types.IsUnsigned != 0 {
			e.assume(Cmp(">=", c, IntLit(0)))
		}
	case c.Sort == SNode:
		// kinds are in range for arrays
		e.assume(Implies(App(SBool, "(_ is n_arr)", c), And(Cmp(">=", App(SInt, "kind", c), IntLit(0)), Cmp("<=", App(SInt, "kind", c), IntLit(3)),
			Cmp(">=", u.SLen(App("SliceNode", "elems", c)), IntLit(0)))))
		e.assume(Implies(App(SBool, "(_ is n_obj)", c), Cmp(">=", u.MCard(App("MapNode", "ov", c)), IntLit(0))))
	default:
		if d := u.DT(c.Sort); d != nil && d.Kind == "struct" {
			for i, f := range d.Fields {
				if u.IsSlice(f.Sort) || u.IsMap(f.Sort) {
					e.assumeTypeInv(u.Field(c, i), nil)
				}
			}
		}
	}
}

func (e *Exec) zeroVal(st *State, t types.Type) Val {
	s := e.p.sortOf(t)
	if s == "Func" {
		return Val{K: vNone}
	}
	if strings.HasPrefix(string(s), "Unsupported_") {
		e.note("unsupported type %s", t)
		return Val{K: vNone}
	}
	return e.wrap(st, e.p.U.Zero(s), "fresh")
}

// ---------------------------------------------------------------------
// Address operations

func (e *Exec) load(st *State, a Val, pos token.Pos) Val {
	if a.K != vAddr {
		panic("load from non-address")
	}
	e.readInv = e.pure == 0
	defer func() { e.readInv = false }()
	r := a.R
	if r.Kind == 0 {
		cv, ok := st.cell[r]
		if !ok {
			panic(fmt.Sprintf("load: cell %s#%d not in state", r.Name, r.ID))
		}
		if len(a.Path) == 0 {
			return cv
		}
		t := e.toTerm(st, cv)
		lab := labelOf(cv)
		own := ""
		if cv.K == vTerm && a.Path[0].IsField {
			if fl, ok := cv.FLab[a.Path[0].Field]; ok {
				lab = fl
				own = cv.FOwn[a.Path[0].Field]
			} else if cv.Own != "" {
				own = cv.Own
				if cv.Lab != "" {
					lab = cv.Lab
				}
			} else if cv.Lab != "" {
				lab = cv.Lab
			} else {
				lab = "fresh"
			}
		}
		return e.wrapOwn(st, e.project(t, r, a.Path), lab, own)
	}
	if r.Kind == 1 {
		arr := st.mem[r]
		if len(a.Path) == 0 {
			// whole array value ([N]T)
			u := e.p.U
			return Val{K: vSlice, R: r, Off: IntLit(0), Len: IntLit(int64(r.N)), S: u.SliceOf(r.Elem)}
		}
		if a.Path[0].IsField {
			panic("load: field step on array root")
		}
		t := App(r.Elem, "select", arr, a.Path[0].Index)
		v := e.wrapOwn(st, e.project(t, r, a.Path[1:]), plainLabel(elemLabel(r)), elemOwn(r))
		if v.K == vTerm {
			v.Own = elemOwn(r)
		}
		return v
	}
	panic("load: bad root kind")
}

func (e *Exec) project(t Term, r *Root, path []Step) Term {
	u := e.p.U
	for _, s := range path {
		if s.IsField {
			t = u.Field(t, s.Field)
		} else if t.Sort == SHash {
			u.useHash = true
			t = App(SInt, "hash_get", t, s.Index)
		} else {
			// index into an array-valued field: modelled as slice term
			t = u.SIndex(t, s.Index)
		}
	}
	return t
}

func (e *Exec) updPath(cur Term, path []Step, v Term) Term {
	if len(path) == 0 {
		if cur.Sort != v.Sort {
			panic(fmt.Sprintf("updPath sort mismatch %s vs %s", cur.Sort, v.Sort))
		}
		return v
	}
	u := e.p.U
	s := path[0]
	if s.IsField {
		return u.WithField(cur, s.Field, e.updPath(u.Field(cur, s.Field), path[1:], v))
	}
	if cur.Sort == SHash {
		u.useHash = true
		return App(SHash, "hash_set", cur, s.Index, v)
	}
	// index into slice-sorted term (array field)
	d := u.DT(cur.Sort)
	arr := u.SArr(cur)
	idx := s.Index
	old := App(d.Elem, "select", arr, idx)
	return u.MkSlice(cur.Sort, App(arr.Sort, "store", arr, idx, e.updPath(old, path[1:], v)), u.SLen(cur))
}

func (e *Exec) store(st *State, a Val, v Val, pos token.Pos) {
	if a.K != vAddr {
		panic("store to non-address")
	}
	r := a.R
	if e.prov != nil {
		e.prov.write(e, r, pos, "store")
	}
	if r.Kind == 0 {
		if len(a.Path) == 0 {
			st.cell[r] = v
			return
		}
		cv := st.cell[r]
		cur := e.toTerm(st, cv)
		nt := e.updPath(cur, a.Path, e.toTerm(st, v))
		if cv.K == vTerm && a.Path[0].IsField && len(a.Path) == 1 {
			// strong update of one field: keep per-field provenance
			nv := labVal(e.name("c_"+r.Name, nt), cv.Lab)
			nv.Own = cv.Own
			nv.FLab = map[int]string{}
			for k, l := range cv.FLab {
				nv.FLab[k] = l
			}
			nv.FLab[a.Path[0].Field] = plainLabel(labelOf(v))
			nv.FOwn = map[int]string{}
			for k, l := range cv.FOwn {
				nv.FOwn[k] = l
			}
			if (v.K == vSlice || v.K == vMap) && v.R != nil {
				nv.FOwn[a.Path[0].Field] = v.R.Label
			} else {
				delete(nv.FOwn, a.Path[0].Field)
			}
			st.cell[r] = nv
			return
		}
		st.cell[r] = e.wrap(st, e.name("c_"+r.Name, nt), joinLabel(labelOf(cv), plainLabel(labelOf(v))))
		return
	}
	if r.Kind == 1 {
		if os.Getenv("JDVC_DEBUG_SPARE") != "" && ownOf(v) != "fresh" {
			fmt.Fprintf(os.Stderr, "STORE-OWN at %s into %s#%d: ownOf=%s kind=%d sort=%s lab=%s own=%s\n", e.posStr(pos), r.Name, r.ID, ownOf(v), v.K, v.T.Sort, v.Lab, v.Own)
		}
		r.ElemOwn = joinLabel(elemOwn(r), ownOf(v))
		r.ElemLabel = joinLabel(elemLabel(r), plainLabel(labelOf(v)))
		arr := st.mem[r]
		if len(a.Path) == 0 {
			// whole-array store
			vt := e.toTerm(st, v)
			st.mem[r] = e.p.U.SArr(vt)
			return
		}
		idx := a.Path[0].Index
		old := App(r.Elem, "select", arr, idx)
		nv := e.updPath(old, a.Path[1:], e.toTerm(st, v))
		st.mem[r] = e.name("a_"+r.Name, App(arr.Sort, "store", arr, idx, nv))
		return
	}
	panic("store: bad root kind")
}

// ---------------------------------------------------------------------
// State merging

func (e *Exec) mergeStates(sts []*State, conds []Term) *State {
	if len(sts) == 1 {
		return sts[0].clone()
	}
	out := newState()
	// mem
	keys := map[*Root]bool{}
	for _, s := range sts {
		for k := range s.mem {
			keys[k] = true
		}
	}
	var roots []*Root
	for k := range keys {
		roots = append(roots, k)
	}
	sort.Slice(roots, func(i, j int) bool { return roots[i].ID < roots[j].ID })
	for _, k := range roots {
		var t Term
		first := true
		merged := false
		for i := len(sts) - 1; i >= 0; i-- {
			v, ok := sts[i].mem[k]
			if !ok {
				continue
			}
			if first {
				t = v
				first = false
			} else {
				if v.S != t.S {
					merged = true
				}
				t = Ite(conds[i], v, t)
			}
		}
		if merged {
			t = e.name("m_"+k.Name, t)
		}
		out.mem[k] = t
	}
	ckeys := map[*Root]bool{}
	for _, s := range sts {
		for k := range s.cell {
			ckeys[k] = true
		}
	}
	roots = roots[:0]
	for k := range ckeys {
		roots = append(roots, k)
	}
	sort.Slice(roots, func(i, j int) bool { return roots[i].ID < roots[j].ID })
	for _, k := range roots {
		var vs []Val
		var cs []Term
		for i, s := range sts {
			if v, ok := s.cell[k]; ok {
				vs = append(vs, v)
				cs = append(cs, conds[i])
			}
		}
		out.cell[k] = e.mergeVals(out, sts, vs, cs, k.Name)
	}
	return out
}

// mergeVals merges values arriving over several edges. stsFor gives the per-edge states in which
// slice/map values must be read.
func (e *Exec) mergeVals(out *State, sts []*State, vs []Val, conds []Term, name string) Val {
	if len(vs) == 1 {
		return vs[0]
	}
	same := true
	for _, v := range vs[1:] {
		if !sameVal(v, vs[0]) {
			same = false
		}
	}
	if same {
		return vs[0]
	}
	switch vs[0].K {
	case vTerm:
		t := vs[len(vs)-1].T
		lab := labelOf(vs[len(vs)-1])
		for i := len(vs) - 2; i >= 0; i-- {
			if vs[i].K != vTerm {
				e.fail("merge of mixed value kinds for %s", name)
				return vs[0]
			}
			t = Ite(conds[i], vs[i].T, t)
			lab = joinLabel(lab, labelOf(vs[i]))
		}
		return labVal(e.name("j_"+name, t), lab)
	case vSlice, vMap:
		// Same root with different views: merge views. Different roots: new root holding the merge.
		sameRoot := true
		for _, v := range vs[1:] {
			if v.K != vs[0].K || v.R != vs[0].R {
				sameRoot = false
			}
		}
		if sameRoot && vs[0].K == vSlice {
			off, ln := vs[len(vs)-1].Off, vs[len(vs)-1].Len
			sub := vs[len(vs)-1].SubOf
			for i := len(vs) - 2; i >= 0; i-- {
				off = Ite(conds[i], vs[i].Off, off)
				ln = Ite(conds[i], vs[i].Len, ln)
				sub = sub || vs[i].SubOf
			}
			return Val{K: vSlice, R: vs[0].R, Off: off, Len: ln, S: vs[0].S, SubOf: sub}
		}
		if sameRoot {
			return vs[0]
		}
		// read each in the corresponding predecessor state
		var t Term
		for i := len(vs) - 1; i >= 0; i-- {
			var ti Term
			found := false
			for _, s := range sts {
				if _, ok := s.mem[vs[i].R]; ok {
					ti = e.toTerm(s, vs[i])
					found = true
					// prefer the state whose cond matches; states are positional with conds when equal length
				}
			}
			if len(sts) == len(vs) {
				if _, ok := sts[i].mem[vs[i].R]; ok {
					ti = e.toTerm(sts[i], vs[i])
					found = true
				}
			}
			if !found {
				if _, ok := out.mem[vs[i].R]; ok {
					ti = e.toTerm(out, vs[i])
					found = true
				}
			}
			if !found {
				e.fail("merge: root of %s not found", name)
				return vs[0]
			}
			if i == len(vs)-1 {
				t = ti
			} else {
				t = Ite(conds[i], ti, t)
			}
		}
		deep := labelOf(vs[0])
		own := vs[0].R.Label
		eown := elemOwn(vs[0].R)
		for _, v := range vs[1:] {
			deep = joinLabel(deep, labelOf(v))
			own = joinLabel(own, v.R.Label)
			eown = joinLabel(eown, elemOwn(v.R))
		}
		nv := e.wrapOwn(out, e.name("j_"+name, t), deep, own)
		if nv.R != nil {
			nv.R.ElemOwn = eown
		}
		return nv
	case vAddr, vClo, vNone, vIter:
		e.fail("merge of differing address/closure values for %s", name)
		return vs[0]
	case vTuple:
		e.fail("merge of tuples for %s", name)
		return vs[0]
	}
	return vs[0]
}

func joinLabel(a, b string) string {
	if a == b {
		return a
	}
	if a == "fresh" {
		return b
	}
	if b == "fresh" {
		return a
	}
	parts := map[string]bool{}
	var out []string
	for _, p := range strings.Split(a+"|"+b, "|") {
		if p != "" && p != "fresh" && !parts[p] {
			parts[p] = true
			out = append(out, p)
		}
	}
	sort.Strings(out)
	if len(out) == 0 {
		return "fresh"
	}
	return strings.Join(out, "|")
}

func sameVal(a, b Val) bool {
	if a.K != b.K {
		return false
	}
	switch a.K {
	case vTerm:
		return a.T.S == b.T.S && a.Lab == b.Lab
	case vSlice:
		return a.R == b.R && a.Off.S == b.Off.S && a.Len.S == b.Len.S
	case vMap:
		return a.R == b.R
	case vAddr:
		if a.R != b.R || len(a.Path) != len(b.Path) || a.NilAddr != b.NilAddr {
			return false
		}
		for i := range a.Path {
			if a.Path[i].IsField != b.Path[i].IsField || a.Path[i].Field != b.Path[i].Field || a.Path[i].Index.S != b.Path[i].Index.S {
				return false
			}
		}
		return true
	case vClo:
		if a.Fn != b.Fn || len(a.Binds) != len(b.Binds) {
			return false
		}
		for i := range a.Binds {
			if !sameVal(a.Binds[i], b.Binds[i]) {
				return false
			}
		}
		return true
	case vNone:
		return true
	case vIter:
		return a.Iter == b.Iter
	}
	return false
}

// extra Exec state kept outside the struct literal for readability
type execExtra struct{}

// ---------------------------------------------------------------------
// CLI effect model: ghost world

type exitPoint struct {
	pc    Term
	code  Term
	st    *State
	pos   token.Pos
	block int
	nAssume, nDecl int
}

var worldVars = []struct {
	name string
	sort Sort
}{{"stdout", SString}, {"stderrLines", SInt}, {"fileWritten", SBool}, {"fileName", SString}, {"fileData", SString}, {"writeErr", SErr}}

func (e *Exec) initWorld(st *State) {
	e.world = map[string]*Root{}
	for _, w := range worldVars {
		r := e.newRoot("world_"+w.name, 0, "", "world")
		e.world[w.name] = r
		c := e.fresh("w_"+w.name, w.sort)
		st.cell[r] = termVal(c)
	}
	e.assume(Cmp(">=", st.cell[e.world["stderrLines"]].T, IntLit(0)))
}

func (e *Exec) worldGet(st *State, name string) Term { return st.cell[e.world[name]].T }

func (e *Exec) worldSet(st *State, name string, t Term) {
	st.cell[e.world[name]] = termVal(e.name("w_"+name, t))
}
