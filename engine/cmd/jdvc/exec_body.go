package main

import (
	"fmt"
	"go/constant"
	"go/token"
	"go/types"
	"strings"

	"golang.org/x/tools/go/ssa"
)

type retPoint struct {
	block int
	pc   Term
	vals []Val
	st   *State
	pos  token.Pos
}

type loopRt struct {
	li       *LoopInfo
	phiVals  map[*ssa.Phi]Val
	measure  Term
	hasMeas  bool
	headPC   Term
	rangeLen Val // for rangeindex loops: the length value
	idxPhi   *ssa.Phi
	iter     *mapIter
	// counter loops `for i := v0; i < B; i++` with B invariant in the loop (automatic invariant)
	cntPhi   *ssa.Phi
	cntInit  Val
	cntBound ssa.Value // B itself when defined outside the loop
	cntLenOf ssa.Value // x when B is len(x) and x is defined outside the loop
	cntDown  bool      // `for i := v0; i >= 0; i--`
	// range loops (over a slice or a map): variables incremented exactly once per iteration
	stepPhis  []*ssa.Phi
	stepInits []Val
}

type Frame struct {
	e      *Exec
	fn     *ssa.Function
	key    string
	vals   map[ssa.Value]Val
	loops  map[*ssa.BasicBlock]*LoopInfo
	lrt    map[*ssa.BasicBlock]*loopRt
	outPC  map[*ssa.BasicBlock]Term
	outSt  map[*ssa.BasicBlock]*State
	rets   []retPoint
	top    bool
	names  map[string][]ssa.Value
	con    *Contract // contract whose loop specs apply to this frame
	env    *SpecEnv  // top frame: contract env (old values)
	parent *Frame
	noReturn    bool // the instruction just executed never returns (os.Exit / callee that always exits)
	sawNoReturn bool // some path of this frame ended in a process exit
	pcNarrow    Term // after a call: condition under which the callee returned normally
}

func (e *Exec) newFrame(fn *ssa.Function, con *Contract) (*Frame, error) {
	fr := &Frame{e: e, fn: fn, key: funcKey(fn), vals: map[ssa.Value]Val{}, loops: map[*ssa.BasicBlock]*LoopInfo{},
		lrt: map[*ssa.BasicBlock]*loopRt{}, outPC: map[*ssa.BasicBlock]Term{}, outSt: map[*ssa.BasicBlock]*State{},
		names: map[string][]ssa.Value{}, con: con}
	lis, err := e.p.loopsOf(fn)
	if err != nil {
		return nil, err
	}
	for _, li := range lis {
		fr.loops[li.Head] = li
		if con != nil {
			li.Spec = con.Loops[li.Key]
		}
	}
	if con != nil {
		for k := range con.Loops {
			found := false
			for _, li := range lis {
				if li.Key == k {
					found = true
				}
			}
			if !found && fn.Parent() == nil {
				// might belong to a closure; checked by caller for staleness
				_ = k
			}
		}
	}
	for _, b := range fn.Blocks {
		for _, ins := range b.Instrs {
			if d, ok := ins.(*ssa.DebugRef); ok {
				if id, ok := d.Expr.(interface{ String() string }); ok {
					_ = id
				}
				if d.IsAddr {
					continue
				}
				if obj := d.Object(); obj != nil {
					fr.names[obj.Name()] = append(fr.names[obj.Name()], d.X)
				}
			}
		}
	}
	return fr, nil
}

func rpo(fn *ssa.Function) []*ssa.BasicBlock {
	var order []*ssa.BasicBlock
	seen := map[*ssa.BasicBlock]bool{}
	var visit func(b *ssa.BasicBlock)
	visit = func(b *ssa.BasicBlock) {
		seen[b] = true
		for _, s := range b.Succs {
			if s.Dominates(b) { // back edge
				continue
			}
			if !seen[s] {
				visit(s)
			}
		}
		order = append(order, b)
	}
	if len(fn.Blocks) > 0 {
		visit(fn.Blocks[0])
	}
	for i, j := 0, len(order)-1; i < j; i, j = i+1, j-1 {
		order[i], order[j] = order[j], order[i]
	}
	return order
}

func (fr *Frame) edgeCond(st *State, pred, b *ssa.BasicBlock) Term {
	last := pred.Instrs[len(pred.Instrs)-1]
	if iff, ok := last.(*ssa.If); ok {
		if pred.Succs[0] == b && pred.Succs[1] == b {
			return True
		}
		c := fr.e.toTerm(st, fr.get(st, iff.Cond))
		if pred.Succs[0] == b {
			return c
		}
		return Not(c)
	}
	return True
}

// run executes the function body from the given entry state.
func (fr *Frame) run(st0 *State, pc0 Term) {
	e := fr.e
	if fr.top {
		e.reach = map[int]map[int]bool{}
		for _, a := range fr.fn.Blocks {
			seen := map[int]bool{a.Index: true}
			stack := []*ssa.BasicBlock{a}
			for len(stack) > 0 {
				x := stack[len(stack)-1]
				stack = stack[:len(stack)-1]
				for _, s := range x.Succs {
					if s.Dominates(x) {
						continue // back edge: cut at the loop head; facts of one iteration do not flow past the invariant
					}
					if !seen[s.Index] {
						seen[s.Index] = true
						stack = append(stack, s)
					}
				}
			}
			e.reach[a.Index] = seen
		}
	}
	for _, b := range rpo(fr.fn) {
		if fr.top {
			e.curBlock = b.Index
		}
		var st *State
		var pc Term
		if b.Index == 0 {
			st = st0.clone()
			pc = pc0
		} else {
			var sts []*State
			var conds []Term
			var preds []*ssa.BasicBlock
			for _, p := range b.Preds {
				if b.Dominates(p) {
					continue // back edge
				}
				opc, ok := fr.outPC[p]
				if !ok {
					continue
				}
				c := And(opc, fr.edgeCond(fr.outSt[p], p, b))
				if c.S == "false" {
					continue
				}
				sts = append(sts, fr.outSt[p])
				conds = append(conds, c)
				preds = append(preds, p)
			}
			if len(sts) == 0 {
				continue // unreachable
			}
			pc = e.name("pc", Or(conds...))
			st = e.mergeStates(sts, conds)
			// phis
			phiVals := map[*ssa.Phi]Val{}
			for _, ins := range b.Instrs {
				phi, ok := ins.(*ssa.Phi)
				if !ok {
					break
				}
				var vs []Val
				for _, p := range preds {
					for i, bp := range b.Preds {
						if bp == p {
							if _, isConst := phi.Edges[i].(*ssa.Const); isConst {
								// constants (nil slices, zero values) are materialised in the merged state
								vs = append(vs, fr.get(st, phi.Edges[i]))
							} else {
								vs = append(vs, fr.get(fr.outSt[p], phi.Edges[i]))
							}
							break
						}
					}
				}
				phiVals[phi] = e.mergeVals(st, sts, vs, conds, phi.Name())
			}
			if li, isHead := fr.loops[b]; isHead {
				st, pc = fr.loopHead(li, st, pc, phiVals)
			} else {
				for phi, v := range phiVals {
					fr.vals[phi] = v
				}
			}
		}
		ended := false
		for _, ins := range b.Instrs {
			if _, ok := ins.(*ssa.Phi); ok {
				continue
			}
			if !fr.exec(st, pc, ins) {
				ended = true
				break
			}
			if fr.noReturn {
				fr.noReturn = false
				fr.sawNoReturn = true
				ended = true
				break
			}
			if fr.pcNarrow.S != "" {
				pc = fr.pcNarrow
				fr.pcNarrow = Term{}
			}
			if len(e.errors) > 20 {
				return
			}
		}
		if ended {
			continue
		}
		fr.outPC[b] = pc
		fr.outSt[b] = st
		for _, s := range b.Succs {
			if s.Dominates(b) {
				fr.backEdge(b, s)
			}
		}
	}
}

// mergedReturn merges all return points into one (for inlined calls).
func (fr *Frame) mergedReturn() ([]Val, *State, Term) {
	e := fr.e
	if len(fr.rets) == 0 {
		return nil, nil, False
	}
	var sts []*State
	var conds []Term
	for _, r := range fr.rets {
		sts = append(sts, r.st)
		conds = append(conds, r.pc)
	}
	st := e.mergeStates(sts, conds)
	n := len(fr.rets[0].vals)
	out := make([]Val, n)
	for i := 0; i < n; i++ {
		var vs []Val
		for _, r := range fr.rets {
			vs = append(vs, r.vals[i])
		}
		out[i] = e.mergeVals(st, sts, vs, conds, fmt.Sprintf("ret%d", i))
	}
	return out, st, Or(conds...)
}

// ---------------------------------------------------------------------
// Operand evaluation

func (fr *Frame) get(st *State, v ssa.Value) Val {
	e := fr.e
	switch v := v.(type) {
	case *ssa.Const:
		return fr.constVal(st, v)
	case *ssa.Global:
		return e.globalAddr(st, v)
	case *ssa.Function:
		return Val{K: vClo, Fn: v}
	case *ssa.Builtin:
		return Val{K: vNone}
	}
	if x, ok := fr.vals[v]; ok {
		return x
	}
	e.fail("%s: value %s (%T) not evaluated", fr.key, v.Name(), v)
	return fr.e.freshVal(st, "undef", v.Type(), "fresh", True)
}

func (fr *Frame) constVal(st *State, c *ssa.Const) Val {
	e := fr.e
	t := c.Type()
	s := e.p.sortOf(t)
	if c.Value == nil {
		// nil or zero value
		if s == "Nil" {
			return termVal(Term{"nil", "Nil"})
		}
		if _, isPtr := t.Underlying().(*types.Pointer); isPtr {
			return termVal(e.p.U.Zero(s))
		}
		return e.zeroVal(st, t)
	}
	switch c.Value.Kind() {
	case constant.Bool:
		if constant.BoolVal(c.Value) {
			return termVal(True)
		}
		return termVal(False)
	case constant.String:
		return termVal(StrLit(constant.StringVal(c.Value)))
	case constant.Int:
		if s == SReal {
			f, _ := constant.Float64Val(c.Value)
			return termVal(realLit(f))
		}
		i, ok := constant.Int64Val(c.Value)
		if !ok {
			u, _ := constant.Uint64Val(c.Value)
			return termVal(Term{fmt.Sprintf("%d", u), SInt})
		}
		return termVal(IntLit(i))
	case constant.Float:
		f, _ := constant.Float64Val(c.Value)
		if s == SInt {
			return termVal(IntLit(int64(f)))
		}
		return termVal(realLit(f))
	}
	e.fail("unsupported constant %s", c)
	return termVal(e.p.U.Zero(s))
}

func realLit(f float64) Term {
	if f < 0 {
		return Term{fmt.Sprintf("(- %s)", realLit(-f).S), SReal}
	}
	s := fmt.Sprintf("%f", f)
	if !strings.Contains(s, ".") {
		s += ".0"
	}
	return Term{s, SReal}
}

func (e *Exec) globalAddr(st *State, g *ssa.Global) Val {
	if e.globals == nil {
		e.globals = map[*ssa.Global]*Root{}
	}
	r, ok := e.globals[g]
	if !ok {
		r = e.newRoot("g_"+g.Name(), 0, "", "global")
		e.globals[g] = r
	}
	if _, ok := st.cell[r]; !ok {
		if e.globalInit == nil {
			e.globalInit = map[*ssa.Global]Term{}
		}
		if t0, seen := e.globalInit[g]; seen {
			// the same initial value in every state that has not written the global
			st.cell[r] = e.wrap(st, t0, "global")
			return Val{K: vAddr, R: r}
		}
		elem := g.Type().(*types.Pointer).Elem()
		gv := e.freshVal(st, "g_"+g.Name(), elem, "global", True)
		if gv.K != vNone {
			e.globalInit[g] = e.toTerm(st, gv)
		}
		st.cell[r] = gv
		if g.Pkg != nil && g.Pkg.Pkg.Path() == "os" && g.Name() == "Args" && gv.K == vSlice {
			// os.Args always holds the program name
			e.assume(Cmp(">=", gv.Len, IntLit(1)))
		}
		if gv.K == vTerm && e.p.U.IsPtr(gv.T.Sort) {
			// package-level pointer variables (command-line flags registered by package flag at
			// initialisation) are assumed non-nil
			e.assume(Not(Eq(gv.T, e.p.U.Zero(gv.T.Sort))))
			e.note("assumed: package-level pointer variables (flag.Bool/String/... results) are non-nil")
		}
	}
	return Val{K: vAddr, R: r}
}

// ---------------------------------------------------------------------
// Loops

func (fr *Frame) loopHead(li *LoopInfo, st *State, pc Term, phiEntry map[*ssa.Phi]Val) (*State, Term) {
	e := fr.e
	rt := &loopRt{li: li, phiVals: map[*ssa.Phi]Val{}, headPC: pc}
	fr.lrt[li.Head] = rt
	fr.detectRange(rt, st)
	fr.detectCounter(rt, st, phiEntry)
	// inv-init
	if e.pure == 0 {
		for i, inv := range fr.invariants(rt) {
			g, err := fr.evalInv(inv, rt, st, phiEntry)
			if err != nil {
				e.fail("%s: loop %q invariant %d: %v", fr.key, li.Key, i, err)
				continue
			}
			e.oblige("inv-init", fmt.Sprintf("%s#inv-init@%q/%d", fr.key, li.Key, i), li.Pos, pc, g, inv.Text)
		}
	}
	// havoc
	st = st.clone()
	fr.havocLoop(li, st)
	for phi := range phiEntry {
		v := e.freshVal(st, "phi_"+phi.Comment, phi.Type(), "loop", pc)
		if pv := phiEntry[phi]; pv.K == vSlice || pv.K == vMap {
			if v.R != nil {
				v.R.Label = pv.R.Label
				v.R.ElemLabel = elemLabel(pv.R)
				v.R.ElemOwn = elemOwn(pv.R)
			}
		} else if pv.K == vTerm && v.K == vTerm {
			v.Lab = labelOf(pv)
		}
		if pv := phiEntry[phi]; pv.K == vClo || pv.K == vAddr || pv.K == vNone || pv.K == vIter {
			v = pv
		}
		rt.phiVals[phi] = v
		fr.vals[phi] = v
	}
	// assume invariants
	for i, inv := range fr.invariants(rt) {
		g, err := fr.evalInv(inv, rt, st, rt.phiVals)
		if err != nil {
			e.fail("%s: loop %q invariant %d: %v", fr.key, li.Key, i, err)
			continue
		}
		e.assume(Implies(pc, g))
	}
	if li.Spec != nil && li.Spec.Decreases != "" {
		m, err := fr.evalInv(Clause{Text: li.Spec.Decreases}, rt, st, rt.phiVals)
		if err != nil {
			e.fail("%s: loop %q decreases: %v", fr.key, li.Key, err)
		} else {
			rt.measure = e.name("meas", m)
			c := e.fresh("meas0", SInt)
			e.assume(Eq(c, rt.measure))
			rt.measure = c
			rt.hasMeas = true
		}
	}
	return st, pc
}

func (fr *Frame) invariants(rt *loopRt) []Clause {
	var out []Clause
	if rt.idxPhi != nil {
		out = append(out, Clause{Text: "@rangeauto"})
	}
	if rt.cntPhi != nil {
		out = append(out, Clause{Text: "@counterauto"})
	}
	for i := range rt.stepPhis {
		out = append(out, Clause{Text: fmt.Sprintf("@stepauto:%d", i)})
	}
	if rt.li.Spec != nil {
		out = append(out, rt.li.Spec.Invariants...)
	}
	return out
}

// detectRange recognises rangeindex loops: phi; t=phi+1; c = t < len; if c.
func (fr *Frame) detectRange(rt *loopRt, st *State) {
	h := rt.li.Head
	if strings.HasPrefix(h.Comment, "rangeiter") {
		for _, ins := range h.Instrs {
			if nx, ok := ins.(*ssa.Next); ok {
				if iv, ok := fr.vals[nx.Iter]; ok && iv.K == vIter {
					rt.iter = iv.Iter
				}
			}
		}
		return
	}
	if !strings.HasPrefix(h.Comment, "rangeindex") {
		return
	}
	var phi *ssa.Phi
	for _, ins := range h.Instrs {
		if p, ok := ins.(*ssa.Phi); ok && p.Comment == "rangeindex" {
			phi = p
		}
		if b, ok := ins.(*ssa.BinOp); ok && b.Op == token.LSS && phi != nil {
			rt.idxPhi = phi
			rt.rangeLen = fr.get(st, b.Y)
		}
	}
}

func (fr *Frame) evalInv(inv Clause, rt *loopRt, st *State, phis map[*ssa.Phi]Val) (Term, error) {
	e := fr.e
	if inv.Text == "@rangeauto" {
		p := e.toTerm(st, phis[rt.idxPhi])
		n := e.toTerm(st, rt.rangeLen)
		return And(Cmp("<=", IntLit(-1), p), Cmp("<=", p, Arith("-", n, IntLit(1)))), nil
	}
	if strings.HasPrefix(inv.Text, "@stepauto:") {
		// c == c0 + (number of iterations completed so far)
		var i int
		fmt.Sscanf(inv.Text, "@stepauto:%d", &i)
		pv, ok := phis[rt.stepPhis[i]]
		if !ok {
			return True, nil
		}
		p := e.toTerm(st, pv)
		v0 := e.toTerm(st, rt.stepInits[i])
		if p.Sort != SInt || v0.Sort != SInt {
			return True, nil
		}
		var done Term
		switch {
		case rt.idxPhi != nil:
			ip, ok := phis[rt.idxPhi]
			if !ok {
				return True, nil
			}
			done = Arith("+", e.toTerm(st, ip), IntLit(1)) // the index phi runs from -1
		case rt.iter != nil && rt.iter.cntRoot != nil:
			c, ok := st.cell[rt.iter.cntRoot]
			if !ok {
				return True, nil
			}
			done = c.T
		default:
			return True, nil
		}
		return Eq(p, Arith("+", v0, done)), nil
	}
	if inv.Text == "@counterauto" {
		// v0 <= i and (i <= B or i == v0): holds on entry; in the body i < B, so i+1 <= B
		pv, ok := phis[rt.cntPhi]
		if !ok {
			return True, nil
		}
		p := e.toTerm(st, pv)
		v0 := e.toTerm(st, rt.cntInit)
		if rt.cntDown {
			// i <= v0 and (i >= -1 or i == v0): in the body i >= 0, so i-1 >= -1
			if p.Sort != SInt || v0.Sort != SInt {
				return True, nil
			}
			return And(Cmp("<=", p, v0), Or(Cmp("<=", IntLit(-1), p), Eq(p, v0))), nil
		}
		var b Term
		if rt.cntLenOf != nil {
			x := fr.get(st, rt.cntLenOf)
			switch x.K {
			case vSlice:
				b = x.Len
			default:
				return True, nil
			}
		} else {
			b = e.toTerm(st, fr.get(st, rt.cntBound))
		}
		if p.Sort != SInt || b.Sort != SInt || v0.Sort != SInt {
			return True, nil
		}
		return And(Cmp("<=", v0, p), Or(Cmp("<=", p, b), Eq(p, v0))), nil
	}
	env := fr.nameEnv(st, rt, phis)
	return e.evalClause(inv.Text, env)
}

// detectCounter recognises `for i := v0; i < B; i++` where B is defined outside the loop, or is
// len(x) of a slice x defined outside the loop, and i is only changed by the increment.
func (fr *Frame) detectCounter(rt *loopRt, st *State, phiEntry map[*ssa.Phi]Val) {
	if rt.idxPhi != nil || (rt.iter != nil && rt.iter.cntRoot != nil) {
		fr.detectSteps(rt, phiEntry)
	}
	if rt.idxPhi != nil || rt.iter != nil {
		return
	}
	h := rt.li.Head
	inLoop := func(v ssa.Value) bool {
		ins, ok := v.(ssa.Instruction)
		if !ok {
			return false // parameters, constants, globals
		}
		return ins.Block() != nil && (ins.Block() == h || rt.li.Body[ins.Block()])
	}
	ifi, ok := h.Instrs[len(h.Instrs)-1].(*ssa.If)
	if !ok {
		return
	}
	cmp, ok := ifi.Cond.(*ssa.BinOp)
	if !ok {
		return
	}
	down := false
	switch cmp.Op {
	case token.LSS:
	case token.GEQ, token.GTR:
		// i >= 0 or i > -1
		c, ok := cmp.Y.(*ssa.Const)
		if !ok || c.Value == nil || (cmp.Op == token.GEQ && c.Int64() != 0) || (cmp.Op == token.GTR && c.Int64() != -1) {
			return
		}
		down = true
	default:
		return
	}
	phi, ok := cmp.X.(*ssa.Phi)
	if !ok || phi.Block() != h || len(phi.Edges) != 2 {
		return
	}
	// one edge from outside (initial value), one from inside that is phi + 1 (phi - 1 when counting down)
	var init ssa.Value
	incOK := false
	for i, pred := range h.Preds {
		ed := phi.Edges[i]
		if pred == h || rt.li.Body[pred] {
			step, ok := ed.(*ssa.BinOp)
			if !ok || step.X != ssa.Value(phi) {
				return
			}
			c, ok := step.Y.(*ssa.Const)
			if !ok || c.Value == nil {
				return
			}
			want := int64(1)
			if down {
				want = -1
			}
			switch {
			case step.Op == token.ADD && c.Int64() == want:
			case step.Op == token.SUB && c.Int64() == -want:
			default:
				return
			}
			incOK = true
		} else {
			init = ed
		}
	}
	if !incOK || init == nil {
		return
	}
	if down {
		iv, ok := phiEntry[phi]
		if !ok {
			return
		}
		rt.cntPhi, rt.cntInit, rt.cntDown = phi, iv, true
		return
	}
	switch y := cmp.Y.(type) {
	case *ssa.Call:
		b, ok := y.Call.Value.(*ssa.Builtin)
		if !ok || b.Name() != "len" || len(y.Call.Args) != 1 || inLoop(y.Call.Args[0]) {
			return
		}
		if _, isSlice := y.Call.Args[0].Type().Underlying().(*types.Slice); !isSlice {
			return
		}
		rt.cntLenOf = y.Call.Args[0]
	default:
		if inLoop(cmp.Y) {
			return
		}
		rt.cntBound = cmp.Y
	}
	iv, ok := phiEntry[phi]
	if !ok {
		return
	}
	rt.cntPhi, rt.cntInit = phi, iv
}

func (fr *Frame) backEdge(b, h *ssa.BasicBlock) {
	e := fr.e
	if e.pure > 0 {
		return
	}
	rt := fr.lrt[h]
	if rt == nil {
		return
	}
	st := fr.outSt[b]
	pc := And(fr.outPC[b], fr.edgeCond(st, b, h))
	phis := map[*ssa.Phi]Val{}
	for _, ins := range h.Instrs {
		phi, ok := ins.(*ssa.Phi)
		if !ok {
			break
		}
		for i, bp := range h.Preds {
			if bp == b {
				phis[phi] = fr.get(st, phi.Edges[i])
			}
		}
	}
	// provenance of loop-carried values: join what flows around the back edge into the head's values
	for phi, in := range phis {
		hv, ok := rt.phiVals[phi]
		if !ok {
			continue
		}
		if (hv.K == vSlice || hv.K == vMap) && hv.R != nil && (in.K == vSlice || in.K == vMap) && in.R != nil {
			hv.R.Label = joinLabel(hv.R.Label, in.R.Label)
			hv.R.ElemLabel = joinLabel(elemLabel(hv.R), elemLabel(in.R))
			hv.R.ElemOwn = joinLabel(elemOwn(hv.R), elemOwn(in.R))
		} else if hv.K == vTerm && in.K == vTerm {
			hv.Lab = joinLabel(labelOf(hv), labelOf(in))
			if structSorts[hv.T.Sort] {
				hv.Own = joinLabel(ownOf(hv), ownOf(in))
			}
			rt.phiVals[phi] = hv
			fr.vals[phi] = hv
		}
	}
	for i, inv := range fr.invariants(rt) {
		g, err := fr.evalInv(inv, rt, st, phis)
		if err != nil {
			e.fail("%s: loop %q invariant %d at back edge: %v", fr.key, rt.li.Key, i, err)
			continue
		}
		e.oblige("inv-preserved", fmt.Sprintf("%s#inv-preserved@%q/%d<-b%d", fr.key, rt.li.Key, i, b.Index), rt.li.Pos, pc, g, inv.Text)
	}
	if rt.hasMeas {
		m, err := fr.evalInv(Clause{Text: rt.li.Spec.Decreases}, rt, st, phis)
		if err == nil {
			e.oblige("decreases", fmt.Sprintf("%s#decreases@%q<-b%d", fr.key, rt.li.Key, b.Index), rt.li.Pos, pc,
				And(Cmp(">=", rt.measure, IntLit(0)), Cmp("<", m, rt.measure)), rt.li.Spec.Decreases)
		}
	}
}

// havocLoop replaces everything the loop body may modify by fresh values.
func (fr *Frame) havocLoop(li *LoopInfo, st *State) {
	e := fr.e
	roots := map[*Root]bool{}
	fr.collectModified(li.Body, st, roots, fr, 0)
	for r := range roots {
		switch r.Kind {
		case 0:
			cv, ok := st.cell[r]
			if !ok {
				continue
			}
			switch cv.K {
			case vTerm:
				c := e.fresh("h_"+r.Name, cv.T.Sort)
				e.assumeTypeInv(c, nil)
				st.cell[r] = termVal(c)
			case vSlice:
				c := e.fresh("h_"+r.Name, cv.S)
				e.assumeTypeInv(c, nil)
				nv := e.wrapOwn(st, c, labelOf(cv), cv.R.Label)
				nv.R.ElemOwn = elemOwn(cv.R)
				st.cell[r] = nv
			case vMap:
				c := e.fresh("h_"+r.Name, cv.S)
				e.assumeTypeInv(c, nil)
				nm := e.wrapOwn(st, c, labelOf(cv), cv.R.Label)
				nm.R.ElemOwn = elemOwn(cv.R)
				st.cell[r] = nm
			}
		case 1:
			if old, ok := st.mem[r]; ok {
				st.mem[r] = e.fresh("h_"+r.Name, old.Sort)
			}
		case 2:
			if old, ok := st.mem[r]; ok {
				c := e.fresh("h_"+r.Name, old.Sort)
				e.assumeTypeInv(c, nil)
				st.mem[r] = c
			}
		}
	}
}

// collectModified scans blocks for writes and adds the affected roots (those existing in st).
func (fr *Frame) collectModified(blocks map[*ssa.BasicBlock]bool, st *State, roots map[*Root]bool, scope *Frame, depth int) {
	e := fr.e
	if depth > 4 {
		return
	}
	addOrigin := func(sc *Frame, v ssa.Value) {
		for _, r := range sc.originRoots(st, v, 0) {
			roots[r] = true
		}
	}
	var scanFn func(sc *Frame, fn *ssa.Function, d int)
	scanInstr := func(sc *Frame, ins ssa.Instruction, d int) {
		switch ins := ins.(type) {
		case *ssa.Store:
			addOrigin(sc, ins.Addr)
		case *ssa.MapUpdate:
			addOrigin(sc, ins.Map)
		case *ssa.Next:
			if iv, ok := sc.vals[ins.Iter]; ok && iv.K == vIter && iv.Iter.visRoot != nil {
				roots[iv.Iter.visRoot] = true
				if iv.Iter.cntRoot != nil {
					roots[iv.Iter.cntRoot] = true
				}
			}
		case ssa.CallInstruction:
			c := ins.Common()
			if b, ok := c.Value.(*ssa.Builtin); ok {
				switch b.Name() {
				case "delete", "copy":
					addOrigin(sc, c.Args[0])
				}
				return
			}
			if c.IsInvoke() {
				key := e.ifaceKey(c)
				if con := e.p.Contracts[key]; con != nil {
					for _, m := range append(append([]string{}, con.Modifies...), con.Consumes...) {
						if m == "self" {
							addOrigin(sc, c.Value)
						}
					}
				}
				return
			}
			callee := c.StaticCallee()
			if callee == nil {
				// closure call through value
				if cv, ok := sc.vals[c.Value]; ok && cv.K == vClo {
					callee = cv.Fn
				} else if l, ok := c.Value.(*ssa.UnOp); ok {
					// load of closure from cell
					if av, ok := sc.vals[l.X]; ok && av.K == vAddr {
						if cv, ok := st.cell[av.R]; ok && cv.K == vClo {
							callee = cv.Fn
						}
					}
				}
				if callee == nil {
					return
				}
			}
			if callee.Parent() != nil || (callee.Pkg == e.p.SSA && e.p.Contracts[funcKey(callee)] == nil && e.p.SpecFuncs[funcKey(callee)] == nil) {
				// inlined: scan body with a pseudo frame for free variables
				if callee.Blocks == nil {
					return
				}
				sub := &Frame{e: e, fn: callee, key: funcKey(callee), vals: map[ssa.Value]Val{}, parent: sc}
				// bind free vars
				var binds []Val
				if mc, ok := c.Value.(*ssa.MakeClosure); ok {
					for _, b := range mc.Bindings {
						if bv, ok := sc.vals[b]; ok {
							binds = append(binds, bv)
						} else {
							binds = append(binds, Val{K: vNone})
						}
					}
				} else if cv, ok := sc.vals[c.Value]; ok && cv.K == vClo {
					binds = cv.Binds
				} else if l, ok := c.Value.(*ssa.UnOp); ok {
					if av, ok := sc.vals[l.X]; ok && av.K == vAddr {
						if cv, ok := st.cell[av.R]; ok && cv.K == vClo {
							binds = cv.Binds
						}
					}
				}
				for i, fv := range callee.FreeVars {
					if i < len(binds) {
						sub.vals[fv] = binds[i]
					}
				}
				for i, p := range callee.Params {
					if i < len(c.Args) {
						if av, ok := sc.vals[c.Args[i]]; ok {
							sub.vals[p] = av
						}
					}
				}
				scanFn(sub, callee, d+1)
				return
			}
			if con := e.p.Contracts[funcKey(callee)]; con != nil {
				names := append(append([]string{}, con.Modifies...), con.Consumes...)
				for _, m := range names {
					for i, p := range callee.Params {
						if p.Name() == m && i < len(c.Args) {
							addOrigin(sc, c.Args[i])
						}
					}
				}
				return
			}
			// externals that modify arguments
			if ext := externalModifies(callee); ext != nil {
				for _, i := range ext {
					if i < len(c.Args) {
						addOrigin(sc, c.Args[i])
					}
				}
			}
		}
	}
	scanFn = func(sc *Frame, fn *ssa.Function, d int) {
		if d > 4 {
			return
		}
		for _, b := range fn.Blocks {
			for _, ins := range b.Instrs {
				scanInstr(sc, ins, d)
			}
		}
	}
	for b := range blocks {
		for _, ins := range b.Instrs {
			scanInstr(scope, ins, depth)
		}
	}
}

// originRoots finds the roots whose storage a pointer/slice/map SSA value may designate.
func (fr *Frame) originRoots(st *State, v ssa.Value, depth int) []*Root {
	if depth > 8 {
		return nil
	}
	if x, ok := fr.vals[v]; ok {
		switch x.K {
		case vAddr, vSlice, vMap:
			if x.R != nil {
				out := []*Root{x.R}
				if x.K == vAddr && len(x.Path) == 0 && x.R.Kind == 0 {
					// pointer to a cell: a store replaces the cell itself
				}
				return out
			}
		}
	}
	switch v := v.(type) {
	case *ssa.Global:
		if r, ok := fr.e.globals[v]; ok {
			return []*Root{r}
		}
	case *ssa.IndexAddr:
		return fr.originRoots(st, v.X, depth+1)
	case *ssa.FieldAddr:
		return fr.originRoots(st, v.X, depth+1)
	case *ssa.Slice:
		return fr.originRoots(st, v.X, depth+1)
	case *ssa.ChangeType:
		return fr.originRoots(st, v.X, depth+1)
	case *ssa.Convert:
		return fr.originRoots(st, v.X, depth+1)
	case *ssa.UnOp:
		if v.Op == token.MUL {
			// content of whatever v.X points to
			var out []*Root
			for _, r := range fr.originRoots(st, v.X, depth+1) {
				if r.Kind == 0 {
					if cv, ok := st.cell[r]; ok && (cv.K == vSlice || cv.K == vMap || cv.K == vAddr) && cv.R != nil {
						out = append(out, cv.R)
					}
				}
			}
			return out
		}
	case *ssa.Phi:
		var out []*Root
		for _, ed := range v.Edges {
			out = append(out, fr.originRoots(st, ed, depth+1)...)
		}
		return out
	}
	return nil
}

// ---------------------------------------------------------------------
// Name environment for invariants and contracts

func (fr *Frame) nameEnv(st *State, rt *loopRt, phis map[*ssa.Phi]Val) *SpecEnv {
	env := &SpecEnv{e: fr.e, st: st, vars: map[string]Val{}, old: map[string]Val{}}
	if fr.env != nil {
		env.old = fr.env.old
		env.recvName = fr.env.recvName
	} else if fr.parent != nil && fr.parent.env != nil {
		env.old = fr.parent.env.old
	}
	env.lookup = func(name string) (Val, bool) {
		return fr.lookupName(name, st, rt, phis)
	}
	env.rt = rt
	return env
}

func (fr *Frame) lookupName(name string, st *State, rt *loopRt, phis map[*ssa.Phi]Val) (Val, bool) {
	e := fr.e
	var at *ssa.BasicBlock
	if rt != nil {
		at = rt.li.Head
		// phis of this loop head
		for _, ins := range at.Instrs {
			phi, ok := ins.(*ssa.Phi)
			if !ok {
				break
			}
			if phi.Comment == name {
				if v, ok := phis[phi]; ok {
					return v, true
				}
			}
		}
		if rt.idxPhi != nil {
			isIdx := name == "idx"
			if !isIdx {
				// the user's key variable: a DebugRef for name whose value is phi+1 in the head
				for _, cand := range fr.names[name] {
					if b, ok := cand.(*ssa.BinOp); ok && b.Op == token.ADD && b.X == ssa.Value(rt.idxPhi) && b.Block() == at {
						isIdx = true
					}
				}
			}
			if isIdx {
				if pv, ok := phis[rt.idxPhi]; ok {
					return termVal(Arith("+", e.toTerm(st, pv), IntLit(1))), true
				}
			}
		}
	}
	if name == "self" && fr.fn.Signature.Recv() != nil && len(fr.fn.Params) > 0 {
		name = fr.fn.Params[0].Name()
	}
	// allocs (cells) by name: prefer the last one that dominates `at`
	var best *ssa.Alloc
	for _, b := range fr.fn.Blocks {
		for _, ins := range b.Instrs {
			if a, ok := ins.(*ssa.Alloc); ok && a.Comment == name {
				if _, ev := fr.vals[a]; ev {
					if at == nil || a.Block().Dominates(at) {
						best = a
					}
				}
			}
		}
	}
	if best != nil {
		return e.load(st, fr.vals[best], token.NoPos), true
	}
	// debug refs: latest dominating definition
	var bestV ssa.Value
	for _, cand := range fr.names[name] {
		ins, ok := cand.(ssa.Instruction)
		if !ok {
			// parameters: visible everywhere, dominated by every instruction
			if _, isParam := cand.(*ssa.Parameter); isParam && bestV == nil {
				if _, ev := fr.vals[cand]; ev {
					bestV = cand
				}
			}
			continue
		}
		if _, ev := fr.vals[cand]; !ev {
			continue
		}
		if at != nil && !(ins.Block().Dominates(at) && ins.Block() != at) {
			// values defined in the loop body are not visible at the head
			if _, isPhi := cand.(*ssa.Phi); !(isPhi && ins.Block() == at) {
				continue
			}
		}
		if bi, isIns := bestV.(ssa.Instruction); bestV == nil || !isIns || bi.Block().Dominates(ins.Block()) {
			bestV = cand
		}
	}
	if bestV != nil {
		if phi, ok := bestV.(*ssa.Phi); ok && phis != nil {
			if v, ok := phis[phi]; ok {
				return v, true
			}
		}
		return fr.vals[bestV], true
	}
	for _, p := range fr.fn.Params {
		if p.Name() == name {
			if v, ok := fr.vals[p]; ok {
				return v, true
			}
		}
	}
	for _, fv := range fr.fn.FreeVars {
		if fv.Name() == name {
			if v, ok := fr.vals[fv]; ok && v.K == vAddr {
				return e.load(st, v, token.NoPos), true
			}
		}
	}
	if fr.parent != nil {
		return fr.parent.lookupName(name, st, nil, nil)
	}
	return Val{}, false
}

// lookupNameAt resolves a source-level name at a block (used for postconditions): the latest
// debug-referenced value whose definition dominates the block, or a cell by name.
func (fr *Frame) lookupNameAt(name string, st *State, at *ssa.BasicBlock) (Val, bool) {
	e := fr.e
	var best *ssa.Alloc
	for _, b := range fr.fn.Blocks {
		for _, ins := range b.Instrs {
			if a, ok := ins.(*ssa.Alloc); ok && a.Comment == name {
				if _, ev := fr.vals[a]; ev && a.Block().Dominates(at) {
					best = a
				}
			}
		}
	}
	if best != nil {
		return e.load(st, fr.vals[best], token.NoPos), true
	}
	var bestV ssa.Value
	for _, cand := range fr.names[name] {
		ins, ok := cand.(ssa.Instruction)
		if !ok {
			continue
		}
		if _, ev := fr.vals[cand]; !ev || !ins.Block().Dominates(at) {
			continue
		}
		if bestV == nil || bestV.(ssa.Instruction).Block().Dominates(ins.Block()) {
			bestV = cand
		}
	}
	if bestV != nil {
		return fr.vals[bestV], true
	}
	return Val{}, false
}

// detectSteps: in a range loop, the variables `c` with one initial value from outside the loop and
// c+1 around the single back edge (incremented exactly once per iteration): c == c0 + iterations.
func (fr *Frame) detectSteps(rt *loopRt, phiEntry map[*ssa.Phi]Val) {
	h := rt.li.Head
	for _, ins := range h.Instrs {
		phi, ok := ins.(*ssa.Phi)
		if !ok {
			break
		}
		if phi == rt.idxPhi || len(phi.Edges) != 2 || len(h.Preds) != 2 {
			continue
		}
		if b, ok := phi.Type().Underlying().(*types.Basic); !ok || b.Info()&types.IsInteger == 0 {
			continue
		}
		good, haveInit := false, false
		for i, pred := range h.Preds {
			ed := phi.Edges[i]
			if pred == h || rt.li.Body[pred] {
				step, ok := ed.(*ssa.BinOp)
				if !ok || step.X != ssa.Value(phi) || step.Op != token.ADD {
					break
				}
				c, ok := step.Y.(*ssa.Const)
				if !ok || c.Value == nil || c.Int64() != 1 {
					break
				}
				good = true
			} else {
				haveInit = true
			}
		}
		iv, ok := phiEntry[phi]
		if good && haveInit && ok && iv.K == vTerm {
			rt.stepPhis = append(rt.stepPhis, phi)
			rt.stepInits = append(rt.stepInits, iv)
		}
	}
}
