package main

import (
	"encoding/json"
	"flag"
	"fmt"
	"os"
	"path/filepath"
	"regexp"
	"sort"
	"strconv"
	"strings"
	"sync"
	"time"
)

const verifRoot = "/verif"

// repoRoot is the tree under check. JDVC_REPO and JDVC_OUT exist only so that the false-alarm
// experiments (tools/try_refactor_par.sh) can run several lanes on scratch copies at once; the
// registered commands never set them.
var repoRoot = envOr("JDVC_REPO", "/repo")
var outRoot = envOr("JDVC_OUT", verifRoot)
var pkgDirs = []string{repoRoot + "/v2", repoRoot + "/v2/jd", repoRoot, repoRoot + "/lib"}

func envOr(k, d string) string {
	if v := os.Getenv(k); v != "" {
		return v
	}
	return d
}

// KnownFindings is /verif/known_findings.json (committed; never written at run time).
type KnownFindings struct {
	Findings []KnownFinding `json:"findings"`
	Fixed    []string       `json:"fixed"`
}

type KnownFinding struct {
	ID         string            `json:"id"`
	Property   string            `json:"property"`
	Function   string            `json:"function"`
	Obligation string            `json:"obligation_regex,omitempty"` // matches the obligation name (line numbers stripped)
	What       string            `json:"what_regex,omitempty"`       // matches the RAC failure label
	Inputs     map[string]string `json:"inputs_regex,omitempty"`     // witness class: regex per shown input
	InputsAny  []string          `json:"inputs_any_regex,omitempty"` // witness class: each regex must match some input
	Predicate  string            `json:"predicate,omitempty"`        // witness class: a named predicate over the shown inputs
	Text       string            `json:"text"`
	Witness    string            `json:"canonical_witness,omitempty"`
}

func loadKnown() *KnownFindings {
	k := &KnownFindings{}
	data, err := os.ReadFile(filepath.Join(verifRoot, "known_findings.json"))
	if err != nil {
		return k
	}
	if err := json.Unmarshal(data, k); err != nil {
		fmt.Fprintln(os.Stderr, "known_findings.json:", err)
		os.Exit(3)
	}
	return k
}

var reLine = regexp.MustCompile(`\.go:\d+`)

func stripLines(s string) string { return reLine.ReplaceAllString(s, ".go") }

func (k *KnownFindings) matchObligation(prop, fn, name string) *KnownFinding {
	for i := range k.Findings {
		f := &k.Findings[i]
		if !propIn(f.Property, prop) || f.Obligation == "" {
			continue
		}
		if f.Function != "" && !fnMatches(f.Function, fn) {
			continue
		}
		if ok, _ := regexp.MatchString(f.Obligation, stripLines(name)); ok {
			return f
		}
	}
	return nil
}

func (k *KnownFindings) matchFailure(prop, fn string, fl RACFailure) *KnownFinding {
	for i := range k.Findings {
		f := &k.Findings[i]
		if !propIn(f.Property, prop) || f.What == "" {
			continue
		}
		if f.Function != "" && !fnMatches(f.Function, fn) {
			continue
		}
		if ok, _ := regexp.MatchString(f.What, fl.What); !ok {
			continue
		}
		all := true
		for p, re := range f.Inputs {
			if ok, _ := regexp.MatchString(re, fl.Inputs[p]); !ok {
				all = false
			}
		}
		for _, re := range f.InputsAny {
			some := false
			for _, v := range fl.Inputs {
				if ok, _ := regexp.MatchString(re, v); ok {
					some = true
				}
			}
			if !some {
				all = false
			}
		}
		if all && f.Predicate != "" && !knownPredicate(f.Predicate, fl.Inputs) {
			all = false
		}
		if all {
			return f
		}
	}
	return nil
}

// knownPredicate evaluates a named witness-class predicate over the shown inputs of a failing tuple.
//
//	numbers-within-precision: an option Precision(eps) with eps > 0 is among the inputs and two
//	different numbers occurring in the other inputs differ by at most eps.
func knownPredicate(name string, inputs map[string]string) bool {
	switch name {
	case "numbers-within-precision":
		eps := -1.0
		reEps := regexp.MustCompile(`Precision\(([-+0-9.eE]+)\)`)
		reNum := regexp.MustCompile(`-?[0-9]+(\.[0-9]+)?([eE][-+]?[0-9]+)?`)
		var nums []float64
		for _, v := range inputs {
			if m := reEps.FindStringSubmatch(v); m != nil {
				fmt.Sscanf(m[1], "%g", &eps)
				continue
			}
			for _, t := range reNum.FindAllString(v, -1) {
				var x float64
				if _, err := fmt.Sscanf(t, "%g", &x); err == nil {
					nums = append(nums, x)
				}
			}
		}
		if eps <= 0 {
			return false
		}
		for i, x := range nums {
			for _, y := range nums[i+1:] {
				if d := x - y; d != 0 && d <= eps && -d <= eps {
					return true
				}
			}
		}
		return false
	}
	return false
}

// Replay is the content of a replay file.
type Replay struct {
	Property   string            `json:"property"`
	Function   string            `json:"function"`
	PackageDir string            `json:"package_dir"`
	Obligation string            `json:"obligation,omitempty"`
	Kind       string            `json:"kind,omitempty"`
	Detail     string            `json:"detail,omitempty"`
	Pos        string            `json:"position,omitempty"`
	What       string            `json:"what,omitempty"`
	Inputs     map[string]string `json:"inputs,omitempty"`
	Lits       map[string]string `json:"go_literals,omitempty"`
	Confirmed  bool              `json:"confirmed_on_real_code"`
	Solver     string            `json:"solver,omitempty"`
	Status     string            `json:"solver_status,omitempty"`
	Output     string            `json:"solver_output,omitempty"`
	SMTFile    string            `json:"smt_file,omitempty"`
	Note       string            `json:"note,omitempty"`
	Source     string            `json:"source"` // "model", "bounded-enumeration", "none"
}

type funcUnderCheck struct {
	p      *Program
	key    string
	isNew  bool // swept function without contract that is not in the committed baseline of the unchanged tree
	stale  bool // its contract names a loop or a variable that no longer exists: the proof cannot be rebuilt
	fault  string // the generator could not process the function (a construct outside the subset): no proof either way
	res    *FuncResult
	rac    *RACResult
	noProof bool
}

// carriers lists the functions of p whose (own or interface-level) contract carries prop.
func (p *Program) carriers(prop string) (proved []string, boundedOnly []string) {
	has := func(c *Contract) bool {
		for _, x := range c.Carries {
			if x == prop {
				return true
			}
		}
		return false
	}
	seen := map[string]bool{}
	for key, c := range p.Contracts {
		if !has(c) {
			continue
		}
		if fn, ok := p.Funcs[key]; ok {
			if _, isSpec := p.SpecFuncs[key]; isSpec && !c.Lemma {
				continue
			}
			if c.Trusted {
				continue
			}
			_ = fn
			if !seen[key] {
				seen[key] = true
				if c.Bounded {
					boundedOnly = append(boundedOnly, key)
				} else {
					proved = append(proved, key)
				}
			}
			continue
		}
		// interface-level: every implementation
		if strings.HasPrefix(key, "JsonNode.") {
			m := strings.TrimPrefix(key, "JsonNode.")
			for fk, fn := range p.Funcs {
				if fn.Name() != m || fn.Signature.Recv() == nil {
					continue
				}
				if ic, _ := p.ifaceContractFor(fn); ic == c && !seen[fk] {
					seen[fk] = true
					if oc := p.Contracts[fk]; oc != nil && oc.Bounded {
						boundedOnly = append(boundedOnly, fk)
					} else {
						proved = append(proved, fk)
					}
				}
			}
		}
	}
	for _, sp := range p.Sweep {
		if sp != prop {
			continue
		}
		for k, f := range p.Funcs {
			if seen[k] || f.Blocks == nil || f.Parent() != nil {
				continue
			}
			if _, isSpec := p.SpecFuncs[k]; isSpec {
				continue
			}
			file := p.Fset.Position(f.Pos()).Filename
			if strings.HasPrefix(filepath.Base(file), "verif_") || strings.HasSuffix(file, "_test.go") {
				continue
			}
			if _, skip := p.NoSweep[k]; skip {
				continue
			}
			if c := p.Contracts[k]; c != nil && (c.Trusted || c.Bounded) {
				if c.Bounded {
					boundedOnly = append(boundedOnly, k)
				}
				seen[k] = true
				continue
			}
			seen[k] = true
			proved = append(proved, k)
		}
	}
	sort.Strings(proved)
	sort.Strings(boundedOnly)
	return
}

func dirCarries(dir, prop string) bool {
	files, _ := filepath.Glob(filepath.Join(dir, "verif_*.go"))
	re := regexp.MustCompile(`(?m)^\s*//\s?@\s*(carries|sweep)\b.*\b` + prop + `\b`)
	for _, f := range files {
		data, err := os.ReadFile(f)
		if err == nil && re.Match(data) {
			return true
		}
	}
	return false
}

func cmdCheck(args []string) {
	fs := flag.NewFlagSet("check", flag.ExitOnError)
	prop := fs.String("property", "", "property id")
	tier := fs.String("tier", "quick", "quick|thorough")
	seedF := fs.Int64("seed", -1, "seed (default VERIF_SEED or 1)")
	verbose := fs.Bool("v", false, "verbose")
	sed := fs.String("sed", "", "self-test mutation: file:::old:::new")
	noRAC := fs.Bool("no-bounded", false, "skip bounded stand-ins (development)")
	fs.Parse(args)
	if *prop == "" {
		fmt.Fprintln(os.Stderr, "check: --property required")
		os.Exit(3)
	}
	if v := os.Getenv("VERIF_TIER"); v != "" && !isFlagSet(fs, "tier") {
		*tier = v
	}
	seed := *seedF
	if seed < 0 {
		seed = 1
		if v := os.Getenv("VERIF_SEED"); v != "" {
			if n, err := strconv.ParseInt(v, 10, 64); err == nil {
				seed = n
			}
		}
	}
	if *sed != "" {
		parts := strings.SplitN(*sed, ":::", 3)
		data, err := os.ReadFile(parts[0])
		if err != nil || !strings.Contains(string(data), parts[1]) {
			fmt.Fprintln(os.Stderr, "sed: pattern not found")
			os.Exit(3)
		}
		loadOverlay = map[string][]byte{parts[0]: []byte(strings.Replace(string(data), parts[1], parts[2], 1))}
	}
	t0 := time.Now()
	currentProperty = *prop
	known := loadKnown()
	quick := *tier != "thorough"
	timeout := 10
	racTier, racCap := 0, int64(150000)
	racTimeout := 600 // seconds per batch of bounded stand-ins: a change that makes the code under test loop must not block the check for long
	if !quick {
		timeout = 60
		racTier, racCap = 1, int64(3000000)
		racTimeout = 3000
	}
	// work directories left behind by interrupted runs (older than two hours) are removed
	if ents, err := os.ReadDir(filepath.Join(outRoot, "work")); err == nil {
		for _, en := range ents {
			if info, err := en.Info(); err == nil && strings.HasPrefix(en.Name(), "check-") && time.Since(info.ModTime()) > 2*time.Hour {
				os.RemoveAll(filepath.Join(outRoot, "work", en.Name()))
			}
		}
	}
	workDir := filepath.Join(outRoot, "work", fmt.Sprintf("check-%s-%d", *prop, os.Getpid()))
	os.MkdirAll(workDir, 0o755)
	defer os.RemoveAll(workDir)
	replayDir := filepath.Join(outRoot, "replays")
	os.MkdirAll(replayDir, 0o755)

	var fucs []*funcUnderCheck
	var stale []string
	var funcFaults []string
	var engineErrors []string
	for _, dir := range pkgDirs {
		if !dirCarries(dir, *prop) {
			continue
		}
		p, err := loadProgram(dir, "verif")
		if err != nil {
			fmt.Fprintf(os.Stderr, "cannot load %s: %v\n", dir, err)
			writeEvidence(*prop, *tier, seed, "other", map[string]interface{}{
				"explanation": "package does not build with the verif tag: " + err.Error(), "evaluations": 1, "distinct_nontrivial": 2}, nil, time.Since(t0).Seconds(), 0)
			os.Exit(3)
		}
		for _, s := range p.Stale {
			stale = append(stale, dir+": "+s)
		}
		proved, bounded := p.carriers(*prop)
		base := loadBaseline()
		for _, k := range proved {
			for _, lk := range p.staleLoops(k) {
				stale = append(stale, fmt.Sprintf("%s: %s loop %q", dir, k, lk))
			}
			f := &funcUnderCheck{p: p, key: k, stale: len(p.staleLoops(k)) > 0}
			if fn := p.Funcs[k]; fn != nil && base != nil && p.Contracts[k] == nil {
				if ic, _ := p.ifaceContractFor(fn); ic == nil && !base[dir][k] {
					f.isNew = true
				}
			}
			fucs = append(fucs, f)
		}
		for _, k := range bounded {
			fucs = append(fucs, &funcUnderCheck{p: p, key: k, noProof: true})
		}
	}
	if len(fucs) == 0 {
		fmt.Fprintf(os.Stderr, "no contract carries %s\n", *prop)
		os.Exit(3)
	}
	// 1. obligations
	var results []*FuncResult
	for _, f := range fucs {
		if f.noProof {
			continue
		}
		f.res = f.p.verifyFunc(f.key, false)
		results = append(results, f.res)
		// a callee without contract that is not in the baseline of the unchanged tree (a helper extracted
		// in a refactor) and that could not be inlined leaves the caller's proof without the facts it had
		if base := loadBaseline(); base != nil {
			for _, n := range f.res.Notes {
				if strings.HasPrefix(n, "call of ") && strings.Contains(n, " not inlined") {
					callee := strings.TrimPrefix(n[:strings.Index(n, " not inlined")], "call of ")
					if !base[f.p.Dir][callee] {
						f.stale = true
						stale = append(stale, f.key+": calls "+callee+", a function that is not part of the unchanged tree and has no contract")
					}
				}
			}
		}
		for _, er := range f.res.Errors {
			if strings.Contains(er, "unknown identifier") && (strings.Contains(er, "invariant") || strings.Contains(er, "decreases") || strings.Contains(er, "stale clause")) {
				// a loop annotation names a variable that no longer exists: stale contract, not an engine fault
				f.stale = true
				stale = append(stale, f.key+": "+er)
				continue
			}
			// the generator met a construct outside its subset in this function. Every function of the
			// unchanged tree is processed without such an error (that is what a passing run on the unchanged
			// tree shows), so this is changed code the engine cannot read: undecided, not a violation and
			// not a broken check; the bounded stand-ins still decide the property on the real code.
			f.fault = er
			funcFaults = append(funcFaults, f.key+": "+er)
		}
	}
	discharge(results, filepath.Join(workDir, "smt"), timeout, 16, *verbose)
	// retry undecided obligations once with a longer timeout
	var retry []*FuncResult
	for _, r := range results {
		var obs []*Obligation
		for _, o := range r.Obls {
			if !o.Passed() && (o.Status == "unknown" || o.Status == "timeout") {
				obs = append(obs, o)
			}
		}
		if len(obs) > 0 {
			retry = append(retry, &FuncResult{Key: r.Key, Obls: obs, exec: r.exec})
		}
	}
	if len(retry) > 0 {
		discharge(retry, filepath.Join(workDir, "smt"), timeout*3, 16, *verbose)
		// last resort for what is still undecided: one obligation at a time (an idle machine), each z3
		// with three different random seeds and cvc5 - quantifier instantiation is sensitive to both
		// load and seed, and an answer that exists should not be lost to either
		var left []*Obligation
		for _, r := range retry {
			for _, o := range r.Obls {
				if !o.Passed() && !o.ExpectSat && (o.Status == "unknown" || o.Status == "timeout") && o.SMTPath != "" {
					left = append(left, o)
				}
			}
		}
		if len(left) <= 3 { // (a change that really breaks a proof usually leaves many; this is for the odd one)
			for _, o := range left {
				solveSeeds(o, timeout)
			}
		}
	}
	// 2. bounded stand-ins / sanity runs of the same contracts on the real code
	if !*noRAC {
		byProg := map[*Program][]string{}
		for _, f := range fucs {
			if f.p.Pkg.Types.Name() == "main" {
				// command functions end the process (os.Exit): exercised as processes by the CLI stand-in instead
				continue
			}
			byProg[f.p] = append(byProg[f.p], f.key)
		}
		var wg sync.WaitGroup
		var mu sync.Mutex
		racRes := map[*Program]map[string]*RACResult{}
		for prog, keys := range byProg {
			// split into a few batches so that they run in parallel
			nb := 4
			if len(keys) < 8 {
				nb = 1
			}
			for bi := 0; bi < nb; bi++ {
				var batch []string
				for i, k := range keys {
					if i%nb == bi {
						batch = append(batch, k)
					}
				}
				if len(batch) == 0 {
					continue
				}
				wg.Add(1)
				go func(prog *Program, batch []string, bi int) {
					defer wg.Done()
					r := prog.runRACBatch(batch, racTier, racCap, seed, nil, filepath.Join(workDir, fmt.Sprintf("rac%d", bi)), racTimeout)
					mu.Lock()
					if racRes[prog] == nil {
						racRes[prog] = map[string]*RACResult{}
					}
					for k, v := range r {
						racRes[prog][k] = v
					}
					mu.Unlock()
				}(prog, batch, bi)
			}
		}
		wg.Wait()
		for _, f := range fucs {
			if rr := racRes[f.p]; rr != nil {
				f.rac = rr[f.key]
			}
		}
	}
	// 3. verdicts
	violations := 0
	undecided := 0
	knownSeen := map[string]bool{}
	var vioLines []string
	nObl, nDis := 0, 0
	byBackend := map[string]int{}
	solverTime := 0.0
	var samples []interface{}
	canaryOK := true
	// functions with a failed loop-invariant obligation: their proof is broken as a whole
	brokenProof := map[*funcUnderCheck]bool{}
	for _, f := range fucs {
		if f.res == nil {
			continue
		}
		for _, o := range f.res.Obls {
			// only inv-init: the code before the loop no longer establishes what the annotation says, i.e. the
			// annotation describes a loop that was set up differently. An invariant that holds on entry and
			// is broken by the body (inv-preserved) stays a violation: that is how a change of the loop's
			// behaviour on an input no finite universe contains (a magic key) is caught.
			if !o.Passed() && !o.ExpectSat && o.Kind == "inv-init" {
				brokenProof[f] = true
			}
		}
	}
	for _, f := range fucs {
		if f.res == nil {
			continue
		}
		if f.fault != "" && len(f.res.Obls) == 0 {
			fmt.Printf("UNDECIDED property=%s obligation=%s#all (the verification-condition generator could not process %s: %s)\n", *prop, f.key, f.key, f.fault)
			undecided++
		}
		for _, o := range f.res.Obls {
			nObl++
			solverTime += o.TimeS
			if o.Passed() {
				nDis++
				byBackend[o.Solver]++
				if len(samples) < 6 && o.Kind != "safety" {
					samples = append(samples, map[string]string{"obligation": o.Name, "kind": o.Kind, "clause": o.Detail, "result": o.Status, "backend": o.Solver})
				}
				continue
			}
			if o.ExpectSat {
				// vacuity guard failed: assumptions are contradictory
				canaryOK = false
				engineErrors = append(engineErrors, "vacuity guard failed: "+o.Name)
				continue
			}
			if kf := known.matchObligation(*prop, f.key, o.Name); kf != nil {
				if !knownSeen[kf.ID] {
					knownSeen[kf.ID] = true
					fmt.Printf("KNOWN-FINDING: property=%s %s\n", *prop, kf.Text)
				}
				continue
			}
			if f.fault != "" || o.Status == "error" {
				why := "the verification-condition generator could not process " + f.key + ": " + f.fault
				if f.fault == "" {
					why = "every solver rejected the generated query, an engine limitation: " + firstLine(o.Output)
				}
				fmt.Printf("UNDECIDED property=%s obligation=%s (%s)\n", *prop, strings.ReplaceAll(o.Name, " ", "_"), why)
				undecided++
				continue
			}
			if brokenProof[f] && !hasMatchingFailure(f, o) {
				// a loop invariant of this function is no longer inductive and no input is known on which the
				// real code breaks its contract: the proof has to be redone for the rewritten loop. The
				// obligations after the loop were generated assuming that invariant, so none of them is
				// evidence either way. Undecided; the bounded stand-ins decide on the real code.
				fmt.Printf("UNDECIDED property=%s obligation=%s (a loop invariant of %s does not hold on loop entry any more and no failing input of the real code is known: the loop was set up differently and its proof needs redoing)\n",
					*prop, strings.ReplaceAll(o.Name, " ", "_"), f.key)
				undecided++
				continue
			}
			if f.stale {
				// the contract of this function refers to a loop or variable that is gone (the function was
				// restructured): the proof cannot be rebuilt, which is "undecided"; the bounded stand-ins of
				// the property still run on the real code and decide
				fmt.Printf("UNDECIDED property=%s obligation=%s (the contract of %s is stale: a loop or variable it names no longer exists)\n",
					*prop, strings.ReplaceAll(o.Name, " ", "_"), f.key)
				undecided++
				continue
			}
			if f.isNew {
				// a function that does not exist on the unchanged tree (no contract, not in the committed
				// baseline): there is no obligation that used to pass here, and no counterexample; a failed
				// proof is "undecided", not a violation
				fmt.Printf("UNDECIDED property=%s obligation=%s (function %s is not part of the unchanged tree's baseline; its safety could not be proved and no failing input is known)\n",
					*prop, strings.ReplaceAll(o.Name, " ", "_"), f.key)
				undecided++
				continue
			}
			// find a concrete failing input among the bounded run's failures
			rp := &Replay{Property: *prop, Function: f.key, PackageDir: f.p.Dir, Obligation: o.Name, Kind: o.Kind, Detail: o.Detail, Pos: o.Pos,
				Solver: o.Solver, Status: o.Status, Output: truncate(o.Output, 4000), Source: "none"}
			if f.rac != nil {
				for _, fl := range f.rac.Failures {
					if failureMatches(o, fl) {
						rp.Inputs, rp.Lits, rp.What, rp.Confirmed, rp.Source = fl.Inputs, fl.Lits, fl.What, true, "bounded-enumeration"
						break
					}
				}
			}
			if o.SMTPath != "" {
				dst := filepath.Join(replayDir, fmt.Sprintf("%s-%s.smt2", *prop, fileSafe(stripLines(o.Name))))
				if data, err := os.ReadFile(o.SMTPath); err == nil {
					os.WriteFile(dst, data, 0o644)
					rp.SMTFile = dst
				}
			}
			path := filepath.Join(replayDir, fmt.Sprintf("%s-%s.json", *prop, fileSafe(stripLines(o.Name))))
			writeJSON(path, rp)
			violations++
			line := fmt.Sprintf("VIOLATION property=%s replay=%s obligation=%s", *prop, path, strings.ReplaceAll(o.Name, " ", "_"))
			if !rp.Confirmed {
				line += " no-failing-input-found"
			}
			vioLines = append(vioLines, line)
		}
	}
	// failures found by the bounded runs that no failed obligation accounts for
	var boundedInfo []map[string]interface{}
	racEvals := int64(0)
	for _, f := range fucs {
		if f.rac == nil {
			continue
		}
		info := map[string]interface{}{"function": f.key, "universe": f.rac.Universe, "tuples": f.rac.Cases, "precondition_held": f.rac.PreOK,
			"space_size": f.rac.Total, "exhaustive": f.rac.Exhaustive, "failures": f.rac.Fails, "label": "bounded, not proved"}
		if f.rac.Error != "" {
			info["skipped"] = f.rac.Error
		}
		boundedInfo = append(boundedInfo, info)
		racEvals += f.rac.Cases
		if f.rac.Error != "" && !strings.HasPrefix(f.rac.Error, "no bounded universe") && !strings.HasPrefix(f.rac.Error, "no contract") {
			engineErrors = append(engineErrors, "bounded run of "+f.key+": "+truncate(f.rac.Error, 600))
		}
		reported := map[string]bool{}
		for _, fl := range f.rac.Failures {
			if kf := known.matchFailure(*prop, f.key, fl); kf != nil {
				if !knownSeen[kf.ID] {
					knownSeen[kf.ID] = true
					fmt.Printf("KNOWN-FINDING: property=%s %s\n", *prop, kf.Text)
				}
				continue
			}
			label := fl.What
			if i := strings.Index(label, ":"); i > 0 {
				label = label[:i]
			}
			if reported[label] {
				continue
			}
			// already explained by a failed obligation of this function?
			explained := false
			if f.res != nil {
				for _, o := range f.res.Obls {
					if !o.Passed() && !o.ExpectSat && failureMatches(o, fl) && known.matchObligation(*prop, f.key, o.Name) == nil {
						explained = true
					}
				}
			}
			if explained {
				continue
			}
			reported[label] = true
			rp := &Replay{Property: *prop, Function: f.key, PackageDir: f.p.Dir, What: fl.What, Inputs: fl.Inputs, Lits: fl.Lits, Confirmed: true,
				Source: "bounded-enumeration", Kind: "contract evaluated on the real code"}
			path := filepath.Join(replayDir, fmt.Sprintf("%s-%s-%s.json", *prop, fileSafe(f.key), fileSafe(label)))
			writeJSON(path, rp)
			violations++
			vioLines = append(vioLines, fmt.Sprintf("VIOLATION property=%s replay=%s", *prop, path))
		}
		for _, s := range f.rac.Samples {
			if len(samples) < 10 {
				samples = append(samples, map[string]interface{}{"bounded_case_of": f.key, "inputs": json.RawMessage(s)})
			}
		}
	}
	for _, l := range vioLines {
		fmt.Println(l)
	}
	// 4. evidence
	level := "proof"
	var funcs []string
	var notes, externals []string
	noteSet, extSet := map[string]bool{}, map[string]bool{}
	for _, f := range fucs {
		funcs = append(funcs, f.key)
		if f.noProof {
			level = "other"
		}
		if f.res != nil {
			for _, n := range f.res.Notes {
				noteSet[n] = true
			}
			for _, n := range f.res.Externals {
				extSet[n] = true
			}
		}
	}
	for n := range noteSet {
		notes = append(notes, n)
	}
	for n := range extSet {
		externals = append(externals, n)
	}
	sort.Strings(notes)
	sort.Strings(externals)
	if nDis != nObl || len(stale) > 0 || len(engineErrors) > 0 || len(funcFaults) > 0 {
		level = "other"
	}
	if lv := levelOverride(*prop); lv != "proof" || level != "proof" {
		if lv == "proof" {
			lv = "other" // claimed proof but this run had undischarged / bounded-only parts
		}
		level = lv
	}
	cov := map[string]interface{}{
		"undecided_new_functions": undecided,
		"obligations": nObl, "discharged": nDis, "by_backend": byBackend, "solver_time_s": round2(solverTime),
		"functions_under_contract": funcs, "stale_blocks": stale, "bounded": boundedInfo, "samples": samples,
		"checker_cmd": fmt.Sprintf("bin/jdvc check --property %s --tier %s", *prop, *tier),
		"trusted_base": trustedBase(externals), "canary_sat": canaryOK, "engine_errors": engineErrors, "functions_outside_subset": funcFaults, "abstractions_hit": notes,
		"evaluations": int64(nObl) + racEvals, "distinct_nontrivial": nDis + 2,
		"rule":        "one evaluation per generated proof obligation plus one per tuple of the bounded stand-ins; distinct_nontrivial counts discharged obligations (each names a distinct program point/clause)",
		"explanation": explanation(nObl, nDis, boundedInfo, stale),
		"known_findings_observed": keysOf(knownSeen),
	}
	writeEvidence(*prop, *tier, seed, level, cov, assumptionsList(notes), time.Since(t0).Seconds(), violations)
	fmt.Fprintf(os.Stderr, "%s %s: %d/%d obligations discharged, %d functions, bounded tuples %d, violations %d, %.1fs\n",
		*prop, *tier, nDis, nObl, len(fucs), racEvals, violations, time.Since(t0).Seconds())
	for _, er := range engineErrors {
		fmt.Fprintln(os.Stderr, "ENGINE:", er)
	}
	for _, s := range stale {
		fmt.Fprintln(os.Stderr, "STALE:", s)
	}
	for _, s := range funcFaults {
		fmt.Fprintln(os.Stderr, "UNSUPPORTED:", s)
	}
	os.RemoveAll(workDir) // (deferred calls do not run on os.Exit)
	if violations > 0 {
		os.Exit(1)
	}
	if len(engineErrors) > 0 {
		os.Exit(3)
	}
}

func isFlagSet(fs *flag.FlagSet, name string) bool {
	set := false
	fs.Visit(func(f *flag.Flag) {
		if f.Name == name {
			set = true
		}
	})
	return set
}

// failureMatches relates a failed obligation to a failure observed on the real code.
func failureMatches(o *Obligation, fl RACFailure) bool {
	switch o.Kind {
	case "safety":
		return strings.HasPrefix(fl.What, "panic:")
	case "ensures":
		// obligation name contains ensures(<from>/<i>); RAC label is ensures(<from>/<i>): text
		i := strings.Index(o.Name, "#ensures(")
		if i < 0 {
			return false
		}
		lab := o.Name[i+1:]
		if j := strings.Index(lab, ")"); j > 0 {
			lab = lab[:j+1]
		}
		return strings.HasPrefix(fl.What, lab)
	case "inv-init", "inv-preserved", "decreases", "requires", "modifies":
		// an invariant that no longer holds shows up as a panic or a failed postcondition
		return true
	}
	return false
}

func truncate(s string, n int) string {
	if len(s) > n {
		return s[:n] + "…"
	}
	return s
}

func round2(f float64) float64 { return float64(int(f*100)) / 100 }

func keysOf(m map[string]bool) []string {
	out := []string{}
	for k := range m {
		out = append(out, k)
	}
	sort.Strings(out)
	return out
}

func writeJSON(path string, v interface{}) {
	data, _ := json.MarshalIndent(v, "", " ")
	os.WriteFile(path, data, 0o644)
}

func explanation(nObl, nDis int, bounded []map[string]interface{}, stale []string) string {
	return fmt.Sprintf("%d of %d proof obligations generated from the current working tree were discharged by the SMT/provenance back ends (unbounded, per function, callee contracts only). "+
		"%d bounded stand-in runs evaluated the same contracts natively on the real code over finite universes; those are bounded checks and are not counted as proved. Stale contract blocks: %d.",
		nDis, nObl, len(bounded), len(stale))
}

func trustedBase(externals []string) []string {
	tb := []string{
		"VC generator jdvc (this repository's engine): translation of go/ssa to SMT-LIB, loop cutting, call-site contract instantiation",
		"solvers: z3 4.8.12, z3 5.1.0, cvc5 1.0 (an unsat answer from one of them discharges an obligation)",
		"machine integers treated as mathematical integers; float64 treated as reals (no NaN/Inf/rounding)",
		"value semantics for slices and maps, justified only by the modifies/consumes obligations; distinct parameters are assumed not to alias",
		"slice capacity approximated by length (re-slicing into spare capacity is rejected, appends always yield a new value)",
		"closed world: the dynamic types of JsonNode / PathElement / Option are those declared in the package",
		"recursive spec functions are unfolded to a fixed fuel (sound: only true instances are added)",
		"termination is verified only for loops that carry a decreases clause",
	}
	for _, e := range externals {
		if strings.HasPrefix(e, "trusted contract of ") {
			tb = append(tb, "unchecked assumption: "+e)
		} else {
			tb = append(tb, "assumed contract for external function "+e)
		}
	}
	return tb
}

func assumptionsList(notes []string) []string {
	out := []string{
		"contracts are //@ comments in /repo/*/verif_contracts*.go; spec functions in verif_spec*.go (build tag verif)",
		"every callee is represented by its contract (or inlined when it is a small non-recursive helper without contract)",
	}
	for _, n := range notes {
		out = append(out, "abstraction: "+n)
	}
	return out
}

// levelOverride: the evidence level follows the level claimed in MANIFEST.json; a claimed "proof" is
// kept only when every obligation was discharged and nothing was bounded-only (decided by the caller).
func levelOverride(prop string) string {
	data, err := os.ReadFile(filepath.Join(verifRoot, "MANIFEST.json"))
	if err != nil {
		return "other"
	}
	var m struct {
		Checks []struct {
			PropertyID   string `json:"property_id"`
			LevelClaimed struct {
				Category string `json:"category"`
			} `json:"level_claimed"`
		} `json:"checks"`
	}
	if json.Unmarshal(data, &m) != nil {
		return "other"
	}
	for _, c := range m.Checks {
		if c.PropertyID == prop {
			return c.LevelClaimed.Category
		}
	}
	return "other"
}

func writeEvidence(prop, tier string, seed int64, level string, cov map[string]interface{}, assumptions []string, wall float64, violations int) {
	t := "quick"
	if tier == "thorough" {
		t = "thorough"
	}
	ev := map[string]interface{}{
		"property_id": prop, "tier": t, "seed": seed, "level": level, "coverage": cov,
		"assumptions": assumptions, "wall_s": round2(wall), "violations": violations,
	}
	os.MkdirAll(filepath.Join(outRoot, "evidence"), 0o755)
	writeJSON(filepath.Join(outRoot, "evidence", prop+".json"), ev)
}

func fileSafe(s string) string {
	var b strings.Builder
	for _, r := range s {
		switch {
		case r >= 'a' && r <= 'z', r >= 'A' && r <= 'Z', r >= '0' && r <= '9', r == '.', r == '-', r == '_':
			b.WriteRune(r)
		default:
			b.WriteByte('_')
		}
	}
	return b.String()
}

// propIn: a finding may list several property ids separated by commas.
func propIn(list, prop string) bool {
	for _, p := range strings.Split(list, ",") {
		if strings.TrimSpace(p) == prop {
			return true
		}
	}
	return false
}

// fnMatches: the function field of a known finding is a name or an alternation of names.
func fnMatches(pat, fn string) bool {
	for _, alt := range strings.Split(pat, "|") {
		if alt == fn {
			return true
		}
	}
	return false
}

// loadBaseline reads /verif/baseline/functions.json: per package directory, the functions that
// exist on the unchanged tree (written by "jdvc baseline", committed, never written by a check).
func loadBaseline() map[string]map[string]bool {
	data, err := os.ReadFile(filepath.Join(verifRoot, "baseline", "functions.json"))
	if err != nil {
		return nil
	}
	var raw map[string][]string
	if json.Unmarshal(data, &raw) != nil {
		return nil
	}
	out := map[string]map[string]bool{}
	for d, ks := range raw {
		out[d] = map[string]bool{}
		for _, k := range ks {
			out[d][k] = true
		}
	}
	return out
}

// cmdBaseline writes the baseline of function keys per package directory.
func cmdBaseline(args []string) {
	out := map[string][]string{}
	for _, dir := range pkgDirs {
		p, err := loadProgram(dir, "verif")
		if err != nil {
			fmt.Fprintln(os.Stderr, err)
			os.Exit(3)
		}
		var ks []string
		for k, f := range p.Funcs {
			if f.Blocks != nil && f.Parent() == nil {
				ks = append(ks, k)
			}
		}
		sort.Strings(ks)
		out[dir] = ks
	}
	os.MkdirAll(filepath.Join(verifRoot, "baseline"), 0o755)
	writeJSON(filepath.Join(verifRoot, "baseline", "functions.json"), out)
	fmt.Println("baseline written")
}

func firstLine(s string) string {
	s = strings.TrimSpace(s)
	if i := strings.Index(s, "\n"); i >= 0 {
		s = s[:i]
	}
	return truncate(s, 200)
}

// hasMatchingFailure reports whether the bounded run of f's own contract on the real code found an
// input that accounts for the failed obligation o.
func hasMatchingFailure(f *funcUnderCheck, o *Obligation) bool {
	if f.rac == nil {
		return false
	}
	for _, fl := range f.rac.Failures {
		if failureMatches(o, fl) {
			return true
		}
	}
	return false
}
