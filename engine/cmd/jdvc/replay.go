package main

import (
	"encoding/json"
	"fmt"
	"os"
	"path/filepath"
)

// cmdReplay re-executes a replay file against the current working tree: a recorded input is run
// through the real function with its contract evaluated natively; a replay without input re-generates
// and re-discharges the named obligation.
func cmdReplay(args []string) {
	if len(args) < 1 {
		fmt.Fprintln(os.Stderr, "usage: jdvc replay <file>")
		os.Exit(3)
	}
	data, err := os.ReadFile(args[0])
	if err != nil {
		fmt.Fprintln(os.Stderr, err)
		os.Exit(3)
	}
	var rp Replay
	if err := json.Unmarshal(data, &rp); err != nil {
		fmt.Fprintln(os.Stderr, err)
		os.Exit(3)
	}
	p, err := loadProgram(rp.PackageDir, "verif")
	if err != nil {
		fmt.Fprintln(os.Stderr, err)
		os.Exit(3)
	}
	work := filepath.Join(verifRoot, "work", fmt.Sprintf("replay-%d", os.Getpid()))
	defer os.RemoveAll(work)
	if len(rp.Lits) > 0 {
		r := p.runRAC(rp.Function, 0, 1, 1, rp.Lits, work, 120)
		if r.Error != "" {
			fmt.Fprintln(os.Stderr, "replay harness error:", r.Error)
			os.Exit(3)
		}
		fmt.Printf("replayed %s on %v\n", rp.Function, rp.Inputs)
		if r.PreOK == 0 {
			fmt.Println("precondition does not hold for this input on the current tree: not a counterexample")
			os.Exit(0)
		}
		if len(r.Failures) > 0 {
			fmt.Printf("REPRODUCED: %s\n", r.Failures[0].What)
			fmt.Printf("VIOLATION property=%s replay=%s\n", rp.Property, args[0])
			os.Exit(1)
		}
		fmt.Println("contract holds for this input on the current tree")
		os.Exit(0)
	}
	// no concrete input: re-discharge the obligation
	res := p.verifyFunc(rp.Function, false)
	var found *Obligation
	for _, o := range res.Obls {
		if stripLines(o.Name) == stripLines(rp.Obligation) {
			found = o
			break
		}
	}
	if found == nil {
		fmt.Printf("obligation %s is no longer generated for %s\n", rp.Obligation, rp.Function)
		os.Exit(0)
	}
	discharge([]*FuncResult{{Key: res.Key, Obls: []*Obligation{found}, exec: res.exec}}, filepath.Join(work, "smt"), 60, 1, false)
	fmt.Printf("obligation %s: %s (%s, %.1fs)\n  clause: %s\n", found.Name, found.Status, found.Solver, found.TimeS, found.Detail)
	if !found.Passed() {
		fmt.Printf("VIOLATION property=%s replay=%s obligation=%s no-failing-input-found\n", rp.Property, args[0], found.Name)
		os.Exit(1)
	}
	os.Exit(0)
}
