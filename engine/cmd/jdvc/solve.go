package main

import (
	"sort"
	"bytes"
	"context"
	"fmt"
	"os"
	"os/exec"
	"path/filepath"
	"strings"
	"sync"
	"time"
)

type Solver struct {
	Name string
	Cmd  func(file string, timeoutS int) []string
}

var solvers = []Solver{
	{"z3-5.1.0", func(f string, t int) []string { return []string{"z3-new", fmt.Sprintf("-T:%d", t), f} }},
	{"z3-4.8.12", func(f string, t int) []string { return []string{"z3", fmt.Sprintf("-T:%d", t), f} }},
	{"cvc5-1.0", func(f string, t int) []string {
		return []string{"cvc5", "--dt-nested-rec", fmt.Sprintf("--tlimit=%d", t*1000), f}
	}},
}

// smtText renders the query for one obligation.
func (e *Exec) smtText(o *Obligation, withModel bool) string { return e.smtTextW(o, withModel, false) }

func isQuantified(s string) bool {
	return strings.Contains(s, "(forall ") || strings.Contains(s, "(exists ")
}

// smtTextW renders the query; weak drops every quantified assumption (a sound weakening for
// unsat answers; sat answers of the weak query are only candidate counterexamples).
func (e *Exec) smtTextW(o *Obligation, withModel bool, weak bool) string {
	var b strings.Builder
	b.WriteString("; obligation " + o.Name + "\n; " + o.Detail + "\n")
	if withModel {
		b.WriteString("(set-option :produce-models true)\n")
	}
	b.WriteString("(set-logic ALL)\n")
	b.WriteString(e.p.U.Decls())
	for _, d := range e.decls[:o.NDecl] {
		b.WriteString(d)
		b.WriteByte('\n')
	}
	// definitional axioms: only those the goal needs (transitively through axiom bodies)
	if len(e.axioms) > 0 {
		need := map[string]bool{}
		var names []string
		for n := range e.axioms {
			if e.axiomIdx[n] <= o.NDecl {
				names = append(names, n)
			}
		}
		sort.Strings(names)
		work := []string{o.Goal.S}
		for _, n := range names {
			if !e.axiomRec[n] {
				need[n] = true
				work = append(work, e.axioms[n])
			}
		}
		for len(work) > 0 {
			txt := work[len(work)-1]
			work = work[:len(work)-1]
			for _, n := range names {
				if !need[n] && strings.Contains(txt, "("+n+" ") {
					need[n] = true
					work = append(work, e.axioms[n])
				}
			}
		}
		for _, n := range names {
			if need[n] {
				b.WriteString(e.axioms[n])
				b.WriteByte('\n')
			}
		}
	}
	for i, a := range e.assumes[:o.NAssume] {
		if weak && isQuantified(a.S) {
			continue
		}
		if !e.relevant(e.assumeBlock[i], o.Block) {
			continue
		}
		b.WriteString("(assert " + a.S + ")\n")
	}
	b.WriteString("(assert " + o.PC.S + ")\n")
	b.WriteString("(assert (not " + o.Goal.S + "))\n")
	b.WriteString("(check-sat)\n")
	if withModel {
		b.WriteString("(get-model)\n")
	}
	return b.String()
}

func runSolver(s Solver, file string, timeoutS int) (status string, out string, dur float64) {
	return runSolverCtx(context.Background(), s, file, timeoutS)
}

func runSolverCtx(parent context.Context, s Solver, file string, timeoutS int) (status string, out string, dur float64) {
	args := s.Cmd(file, timeoutS)
	ctx, cancel := context.WithTimeout(parent, time.Duration(timeoutS+5)*time.Second)
	defer cancel()
	cmd := exec.CommandContext(ctx, args[0], args[1:]...)
	var buf bytes.Buffer
	cmd.Stdout = &buf
	cmd.Stderr = &buf
	t0 := time.Now()
	cmd.Run()
	dur = time.Since(t0).Seconds()
	out = buf.String()
	first := strings.TrimSpace(strings.SplitN(out, "\n", 2)[0])
	switch first {
	case "unsat", "sat", "unknown":
		status = first
	case "timeout":
		status = "timeout"
	default:
		if ctx.Err() != nil || strings.Contains(out, "timeout") || strings.Contains(out, "interrupted") {
			status = "timeout"
		} else {
			status = "error"
		}
	}
	return
}

// discharge runs the portfolio on all obligations of all results, in parallel.
func discharge(results []*FuncResult, workDir string, timeoutS int, workers int, verbose bool) {
	type job struct {
		e *Exec
		o *Obligation
	}
	var jobs []job
	for _, r := range results {
		for _, o := range r.Obls {
			jobs = append(jobs, job{r.exec, o})
		}
	}
	os.MkdirAll(workDir, 0o755)
	var wg sync.WaitGroup
	ch := make(chan job)
	for w := 0; w < workers; w++ {
		wg.Add(1)
		go func() {
			defer wg.Done()
			for j := range ch {
				solveOne(j.e, j.o, workDir, timeoutS)
				if verbose {
					fmt.Fprintf(os.Stderr, "  %-8s %-10s %6.2fs %s\n", j.o.Status, j.o.Solver, j.o.TimeS, j.o.Name)
				}
			}
		}()
	}
	for _, j := range jobs {
		ch <- j
	}
	close(ch)
	wg.Wait()
}

func solveOne(e *Exec, o *Obligation, workDir string, timeoutS int) {
	// trivial cases without a solver
	if !o.ExpectSat && (o.Goal.S == "true" || o.PC.S == "false") {
		o.Status, o.Solver = "unsat", "trivial"
		if o.Kind == "fresh" || o.Kind == "modifies" {
			o.Solver = "provenance"
		}
		return
	}
	if (o.Kind == "modifies" || o.Kind == "fresh") && o.PC.S == "true" && o.Goal.S == "false" {
		o.Status, o.Solver = "sat", "provenance"
		return
	}
	file := filepath.Join(workDir, fileSafe(o.Name)+".smt2")
	if len(file) > 200 {
		file = file[:200] + ".smt2"
	}
	total := 0.0
	// stage 1: quantifier-free weakening (drops quantified assumptions); unsat here is final
	wfile := strings.TrimSuffix(file, ".smt2") + ".weak.smt2"
	os.WriteFile(wfile, []byte(e.smtTextW(o, true, true)), 0o644)
	wst, wout, wdur := runSolver(solvers[0], wfile, 1)
	total += wdur
	if wst == "unsat" {
		o.Status, o.Solver, o.TimeS, o.SMTPath = "unsat", solvers[0].Name+"(qf)", total, wfile
		return
	}
	if wst == "sat" {
		o.WeakModel = wout
	}
	txt := e.smtText(o, false)
	os.WriteFile(file, []byte(txt), 0o644)
	o.SMTPath = file
	if o.ExpectSat {
		// vacuity guard: only an unsat answer is a failure; do not spend the portfolio on it
		st, out, dur := runSolver(solvers[0], file, 3)
		o.Status, o.Solver, o.Output, o.TimeS = st, solvers[0].Name, out, total+dur
		return
	}
	// stage 2: the first solver alone with a short limit (decides almost everything)
	short := 2
	if st, out, dur := runSolver(solvers[0], file, short); st == "unsat" || st == "sat" {
		o.Status, o.Solver, o.Output, o.TimeS = st, solvers[0].Name, out, total+dur
		return
	} else {
		total += dur
		o.Status, o.Solver, o.Output = st, solvers[0].Name, out
	}
	// stage 3: race the whole portfolio with the full limit; the first definite answer wins
	type ans struct {
		st, out, name string
		dur           float64
	}
	ctx, cancel := context.WithCancel(context.Background())
	defer cancel()
	ch := make(chan ans, len(solvers))
	for _, s := range solvers {
		go func(s Solver) {
			st, out, dur := runSolverCtx(ctx, s, file, timeoutS)
			ch <- ans{st, out, s.Name, dur}
		}(s)
	}
	worst := 0.0
	for range solvers {
		a := <-ch
		if a.dur > worst {
			worst = a.dur
		}
		if a.st == "unsat" || a.st == "sat" {
			o.Status, o.Solver, o.Output, o.TimeS = a.st, a.name, a.out, total+a.dur
			return
		}
		o.Status, o.Solver, o.Output = a.st, a.name, a.out
	}
	o.TimeS = total + worst
}

func (o *Obligation) Passed() bool {
	if o.ExpectSat {
		return o.Status != "unsat"
	}
	return o.Status == "unsat"
}

// solveSeeds re-runs one undecided obligation serially with different solver seeds.
func solveSeeds(o *Obligation, timeoutS int) {
	type cfg struct {
		name string
		args []string
	}
	var cfgs []cfg
	for _, seed := range []int{1, 7, 42} {
		cfgs = append(cfgs, cfg{fmt.Sprintf("z3-5.1.0(seed %d)", seed), []string{"z3-new", fmt.Sprintf("-T:%d", timeoutS), fmt.Sprintf("smt.random_seed=%d", seed), fmt.Sprintf("sat.random_seed=%d", seed), o.SMTPath}})
		cfgs = append(cfgs, cfg{fmt.Sprintf("z3-4.8.12(seed %d)", seed), []string{"z3", fmt.Sprintf("-T:%d", timeoutS), fmt.Sprintf("smt.random_seed=%d", seed), fmt.Sprintf("sat.random_seed=%d", seed), o.SMTPath}})
	}
	cfgs = append(cfgs, cfg{"cvc5-1.0", []string{"cvc5", "--dt-nested-rec", fmt.Sprintf("--tlimit=%d", timeoutS*1000), o.SMTPath}})
	for _, c := range cfgs {
		s := Solver{Name: c.name, Cmd: func(string, int) []string { return c.args }}
		st, out, dur := runSolver(s, o.SMTPath, timeoutS)
		o.TimeS += dur
		if st == "unsat" || st == "sat" {
			o.Status, o.Solver, o.Output = st, c.name, out
			return
		}
	}
}
