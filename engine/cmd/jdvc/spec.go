package main

import (
	"os"
	"fmt"
	"go/ast"
	"go/parser"
	"go/token"
	"strconv"
	"strings"

	"golang.org/x/tools/go/ssa"
)

// SpecEnv resolves names in contract clauses.
type SpecEnv struct {
	e        *Exec
	st       *State
	vars     map[string]Val
	old      map[string]Val
	lookup   func(name string) (Val, bool)
	rt       *loopRt
	recvName string
	inOld    bool
	knownName func(string) bool
	lenient  bool // unresolvable locals in a conclusion turn the clause into "premises are false"
}

// splitImplies splits a clause on top-level "==>" (right associative).
func splitImplies(s string) []string {
	var parts []string
	depth := 0
	start := 0
	inStr := false
	for i := 0; i < len(s); i++ {
		c := s[i]
		if inStr {
			if c == '\\' {
				i++
			} else if c == '"' {
				inStr = false
			}
			continue
		}
		switch c {
		case '"':
			inStr = true
		case '(', '[', '{':
			depth++
		case ')', ']', '}':
			depth--
		case '=':
			if depth == 0 && strings.HasPrefix(s[i:], "==>") {
				parts = append(parts, strings.TrimSpace(s[start:i]))
				start = i + 3
				i += 2
			}
		}
	}
	parts = append(parts, strings.TrimSpace(s[start:]))
	return parts
}

func (e *Exec) evalClause(text string, env *SpecEnv) (Term, error) {
	parts := splitImplies(text)
	var terms []Term
	for _, p := range parts {
		x, err := parser.ParseExpr(p)
		if err != nil {
			return Term{}, fmt.Errorf("parse %q: %v", p, err)
		}
		v, err := e.evalExpr(x, env)
		if err != nil {
			if len(terms) == 0 && len(parts) > 1 && strings.Contains(err.Error(), "unknown identifier") && env.lenient && env.knownName != nil {
				// a premise names a local of this function that is not in scope at this point: vacuous here
				name := err.Error()[strings.LastIndex(err.Error(), " ")+1:]
				if env.knownName(name) {
					return True, nil
				}
			}
			if len(terms) > 0 && strings.Contains(err.Error(), "unknown identifier") && env.lenient && env.knownName != nil {
				// the conclusion names something that is no local of this function at all (the local
				// was renamed or moved into a helper): the contract is stale, not violated
				name := err.Error()[strings.LastIndex(err.Error(), " ")+1:]
				if !env.knownName(name) {
					return Term{}, fmt.Errorf("%q: stale clause: unknown identifier %s", p, name)
				}
			}
			if len(terms) > 0 && strings.Contains(err.Error(), "unknown identifier") && env.lenient {
				// the conclusion names a local that does not exist (yet) at this program point:
				// the clause then requires its premises to be false here
				out := False
				for i := len(terms) - 1; i >= 0; i-- {
					out = Implies(terms[i], out)
				}
				return out, nil
			}
			return Term{}, fmt.Errorf("%q: %v", p, err)
		}
		t, err := e.valTerm(env, v)
		if err != nil {
			return Term{}, err
		}
		if t.Sort != SBool && len(parts) > 1 {
			return Term{}, fmt.Errorf("%q is not boolean", p)
		}
		terms = append(terms, t)
	}
	out := terms[len(terms)-1]
	for i := len(terms) - 2; i >= 0; i-- {
		out = Implies(terms[i], out)
	}
	return out, nil
}

func (e *Exec) valTerm(env *SpecEnv, v Val) (t Term, err error) {
	defer func() {
		if r := recover(); r != nil {
			if os.Getenv("JDVC_PANIC") != "" {
				panic(r)
			}
			err = fmt.Errorf("%v", r)
		}
	}()
	switch v.K {
	case vTerm, vSlice, vMap:
		return e.toTerm(env.st, v), nil
	}
	return Term{}, fmt.Errorf("value of kind %d is not a term", v.K)
}

func (e *Exec) evalExpr(x ast.Expr, env *SpecEnv) (v Val, err error) {
	defer func() {
		if r := recover(); r != nil {
			if os.Getenv("JDVC_PANIC") != "" {
				panic(r)
			}
			err = fmt.Errorf("%v", r)
		}
	}()
	u := e.p.U
	tm := func(x ast.Expr) (Term, error) {
		v, err := e.evalExpr(x, env)
		if err != nil {
			return Term{}, err
		}
		return e.valTerm(env, v)
	}
	switch x := x.(type) {
	case *ast.ParenExpr:
		return e.evalExpr(x.X, env)
	case *ast.Ident:
		switch x.Name {
		case "true":
			return termVal(True), nil
		case "false":
			return termVal(False), nil
		case "nil":
			return termVal(Term{"nil", "Nil"}), nil
		}
		if env.inOld {
			if v, ok := env.old[x.Name]; ok {
				return v, nil
			}
			return Val{}, fmt.Errorf("old(%s): no entry value", x.Name)
		}
		if v, ok := env.vars[x.Name]; ok {
			return v, nil
		}
		if env.lookup != nil {
			if v, ok := env.lookup(x.Name); ok {
				return v, nil
			}
		}
		// ghost world of the CLI effect model
		if e.world != nil {
			if r, ok := e.world[x.Name]; ok {
				if cv, ok := env.st.cell[r]; ok {
					return cv, nil
				}
			}
		}
		// package-level variables (current value)
		if g, ok := e.p.SSA.Members[x.Name].(*ssa.Global); ok {
			return e.load(env.st, e.globalAddr(env.st, g), token.NoPos), nil
		}
		// package-level constants
		if c, ok := e.p.SSA.Members[x.Name].(*ssa.NamedConst); ok {
			fr := &Frame{e: e}
			return fr.constVal(env.st, c.Value), nil
		}
		return Val{}, fmt.Errorf("unknown identifier %s", x.Name)
	case *ast.BasicLit:
		switch x.Kind {
		case token.INT:
			i, _ := strconv.ParseInt(x.Value, 0, 64)
			return termVal(IntLit(i)), nil
		case token.STRING:
			s, _ := strconv.Unquote(x.Value)
			return termVal(StrLit(s)), nil
		case token.FLOAT:
			f, _ := strconv.ParseFloat(x.Value, 64)
			return termVal(realLit(f)), nil
		}
	case *ast.StarExpr:
		t, err := tm(x.X)
		if err != nil {
			return Val{}, err
		}
		if !u.IsPtr(t.Sort) {
			return Val{}, fmt.Errorf("dereference of %s", t.Sort)
		}
		return termVal(App(u.DT(t.Sort).Elem, "val_"+string(t.Sort), t)), nil
	case *ast.UnaryExpr:
		t, err := tm(x.X)
		if err != nil {
			return Val{}, err
		}
		switch x.Op {
		case token.NOT:
			return termVal(Not(t)), nil
		case token.SUB:
			return termVal(Term{"(- " + t.S + ")", t.Sort}), nil
		}
	case *ast.BinaryExpr:
		a, err := e.evalExpr(x.X, env)
		if err != nil {
			return Val{}, err
		}
		b, err := e.evalExpr(x.Y, env)
		if err != nil {
			return Val{}, err
		}
		if x.Op == token.EQL || x.Op == token.NEQ {
			// nil comparison
			if a.K == vTerm && a.T.Sort == "Nil" {
				a, b = b, a
			}
			if b.K == vTerm && b.T.Sort == "Nil" {
				at, err := e.valTerm(env, a)
				if err != nil {
					return Val{}, err
				}
				r := Eq(at, u.Zero(at.Sort))
				if x.Op == token.NEQ {
					r = Not(r)
				}
				return termVal(r), nil
			}
		}
		at, err := e.valTerm(env, a)
		if err != nil {
			return Val{}, err
		}
		bt, err := e.valTerm(env, b)
		if err != nil {
			return Val{}, err
		}
		switch x.Op {
		case token.LAND:
			return termVal(And(at, bt)), nil
		case token.LOR:
			return termVal(Or(at, bt)), nil
		case token.EQL:
			return termVal(Eq(at, bt)), nil
		case token.NEQ:
			return termVal(Not(Eq(at, bt))), nil
		case token.LSS:
			return termVal(Cmp("<", at, bt)), nil
		case token.LEQ:
			return termVal(Cmp("<=", at, bt)), nil
		case token.GTR:
			return termVal(Cmp(">", at, bt)), nil
		case token.GEQ:
			return termVal(Cmp(">=", at, bt)), nil
		case token.ADD:
			if at.Sort == SString {
				return termVal(App(SString, "str.++", at, bt)), nil
			}
			return termVal(Arith("+", at, bt)), nil
		case token.SUB:
			return termVal(Arith("-", at, bt)), nil
		case token.MUL:
			return termVal(Arith("*", at, bt)), nil
		}
	case *ast.IndexExpr:
		xt, err := tm(x.X)
		if err != nil {
			return Val{}, err
		}
		it, err := tm(x.Index)
		if err != nil {
			return Val{}, err
		}
		if u.IsSlice(xt.Sort) {
			return termVal(u.SIndex(xt, it)), nil
		}
		if u.IsMap(xt.Sort) {
			return termVal(u.MGet(xt, it)), nil
		}
		return Val{}, fmt.Errorf("index of %s", xt.Sort)
	case *ast.SliceExpr:
		xt, err := tm(x.X)
		if err != nil {
			return Val{}, err
		}
		lo := IntLit(0)
		if x.Low != nil {
			if lo, err = tm(x.Low); err != nil {
				return Val{}, err
			}
		}
		if xt.Sort == SString {
			hi := App(SInt, "str.len", xt)
			if x.High != nil {
				if hi, err = tm(x.High); err != nil {
					return Val{}, err
				}
			}
			return termVal(App(SString, "str.substr", xt, lo, Arith("-", hi, lo))), nil
		}
		if !u.IsSlice(xt.Sort) {
			return Val{}, fmt.Errorf("slice of %s", xt.Sort)
		}
		hi := u.SLen(xt)
		if x.High != nil {
			if hi, err = tm(x.High); err != nil {
				return Val{}, err
			}
		}
		return termVal(u.SubSlice(xt, lo, hi)), nil
	case *ast.SelectorExpr:
		if pid, ok := x.X.(*ast.Ident); ok {
			// package-qualified variable of an imported package, e.g. jd.SET
			if _, isLocal := env.vars[pid.Name]; !isLocal {
				wantPath := e.p.importPath(pid.Name)
				for _, pk := range e.p.Prog.AllPackages() {
					if ((wantPath != "" && pk.Pkg.Path() == wantPath) || (wantPath == "" && pk.Pkg.Name() == pid.Name)) && pk != e.p.SSA {
						if g, ok := pk.Members[x.Sel.Name].(*ssa.Global); ok {
							return e.load(env.st, e.globalAddr(env.st, g), token.NoPos), nil
						}
					}
				}
			}
		}
		xt, err := tm(x.X)
		if err != nil {
			return Val{}, err
		}
		if f, ok := u.FieldByName(xt, x.Sel.Name); ok {
			return termVal(f), nil
		}
		return Val{}, fmt.Errorf("no field %s in %s", x.Sel.Name, xt.Sort)
	case *ast.CallExpr:
		id, ok := x.Fun.(*ast.Ident)
		if !ok {
			return Val{}, fmt.Errorf("unsupported call %s", exprString(e.p.Fset, x.Fun))
		}
		switch id.Name {
		case "old":
			saved := env.inOld
			env.inOld = true
			v, err := e.evalExpr(x.Args[0], env)
			env.inOld = saved
			return v, err
		case "len":
			t, err := tm(x.Args[0])
			if err != nil {
				return Val{}, err
			}
			switch {
			case u.IsSlice(t.Sort):
				return termVal(u.SLen(t)), nil
			case u.IsMap(t.Sort):
				return termVal(u.MCard(t)), nil
			case t.Sort == SString:
				return termVal(App(SInt, "str.len", t)), nil
			}
			return Val{}, fmt.Errorf("len of %s", t.Sort)
		case "int", "PathIndex", "float64", "string", "jsonString", "PathKey", "jsonNumber", "jsonBool", "bool",
			"jsonObject", "jsonArray", "jsonList", "jsonSet", "jsonMultiset", "PathSetKeys", "PathMultisetKeys", "Path", "Diff":
			t, err := tm(x.Args[0])
			if err != nil {
				return Val{}, err
			}
			if (id.Name == "float64" || id.Name == "jsonNumber") && t.Sort == SInt {
				return termVal(ToReal(t)), nil
			}
			return termVal(t), nil
		case "visited":
			// visited(k): key already produced by this loop's map iterator
			if env.rt == nil || env.rt.iter == nil {
				return Val{}, fmt.Errorf("visited() outside a map range loop")
			}
			k, err := tm(x.Args[0])
			if err != nil {
				return Val{}, err
			}
			vis := env.st.cell[env.rt.iter.visRoot].T
			return termVal(App(SBool, "select", vis, k)), nil
		}
		if id.Name == "forallInt" || id.Name == "existsInt" || id.Name == "forallKey" || id.Name == "forallAnyKey" {
			return e.evalQuant(id.Name, x, env)
		}
		if id.Name == "same" || id.Name == "samePE" {
			a, err := tm(x.Args[0])
			if err != nil {
				return Val{}, err
			}
			b, err := tm(x.Args[1])
			if err != nil {
				return Val{}, err
			}
			return termVal(Eq(a, b)), nil
		}
		if id.Name == "mapHas" {
			m, err := tm(x.Args[0])
			if err != nil {
				return Val{}, err
			}
			k, err := tm(x.Args[1])
			if err != nil {
				return Val{}, err
			}
			return termVal(u.MHas(m, k)), nil
		}
		var args []Term
		for _, a := range x.Args {
			t, err := tm(a)
			if err != nil {
				return Val{}, err
			}
			args = append(args, t)
		}
		fn := e.p.Funcs[id.Name]
		if fn == nil {
			return Val{}, fmt.Errorf("unknown spec function %s", id.Name)
		}
		// nil arguments take the parameter's zero value
		for i := range args {
			if args[i].Sort == "Nil" && i < len(fn.Params) {
				args[i] = u.Zero(e.p.sortOf(fn.Params[i].Type()))
			}
		}
		r, err := e.specCall(env.st, fn, args)
		if err != nil {
			return Val{}, err
		}
		return termVal(r), nil
	}
	return Val{}, fmt.Errorf("unsupported expression %s", exprString(e.p.Fset, x))
}

// specCall evaluates a pure function on terms: inlined if non-recursive, otherwise an uninterpreted
// application unfolded to the current fuel.
func (e *Exec) specCall(st *State, fn *ssa.Function, args []Term) (Term, error) {
	key := funcKey(fn)
	if len(args) != len(fn.Params) {
		return Term{}, fmt.Errorf("%s: %d args for %d params", key, len(args), len(fn.Params))
	}
	for i, p := range fn.Params {
		ps := e.p.sortOf(p.Type())
		if args[i].Sort != ps {
			if e.p.U.IsSlice(args[i].Sort) && e.p.U.IsSlice(ps) && e.p.U.DT(args[i].Sort).Elem == e.p.U.DT(ps).Elem {
				args[i] = e.asSort(args[i], ps)
				continue
			}
			if args[i].Sort == SInt && ps == SReal {
				args[i] = ToReal(args[i])
				continue
			}
			if ps == SOpt || ps == SNode || ps == SPE {
				// implicit conversion of a concrete value to the interface (as Go does at a call)
				name := string(args[i].Sort)
				if j := strings.LastIndex(name, "_"); j >= 0 {
					name = name[j+1:]
				}
				var t Term
				ok := false
				switch ps {
				case SOpt:
					t, ok = e.optOf(st, termVal(args[i]), name)
				case SNode:
					t, ok = e.nodeOf(st, termVal(args[i]), name)
				case SPE:
					t, ok = e.pathElemOf(st, termVal(args[i]), name)
				}
				if ok {
					args[i] = t
					continue
				}
			}
			return Term{}, fmt.Errorf("%s: argument %d has sort %s, parameter %s has sort %s", key, i, args[i].Sort, p.Name(), ps)
		}
	}
	if fn.Signature.Results().Len() != 1 {
		return Term{}, fmt.Errorf("%s: spec functions must have one result", key)
	}
	for i := range args {
		args[i] = e.name("a_"+fn.Params[i].Name(), args[i])
	}
	rs := e.p.sortOf(fn.Signature.Results().At(0).Type())
	if c := e.p.Contracts[key]; e.p.specRec[key] || (c != nil && c.Opaque) {
		name := "spec_" + sanitize(key)
		var ss []Sort
		for _, a := range args {
			ss = append(ss, a.Sort)
		}
		firstUse := !e.declared[name]
		e.declareFun(name, ss, rs)
		if c := e.p.Contracts[key]; firstUse && c != nil && c.Opaque && !c.Trusted && (!e.p.specRec[key] || c.Axiom) {
			// definitional axiom: forall x. f(x) = body(x), triggered by f(x)
			var bound []Term
			var binders []string
			for i, s := range ss {
				e.nfresh++
				b := Term{fmt.Sprintf("x!%d_%d", e.nfresh, i), s}
				bound = append(bound, b)
				binders = append(binders, fmt.Sprintf("(%s %s)", b.S, s))
			}
			savedStack, savedDepth, savedUnfold := e.callStack, e.depth, e.unfold
			e.callStack, e.depth = nil, 0
			e.binder++
			body, err := e.runPure(st, fn, bound)
			e.binder--
			e.callStack, e.depth, e.unfold = savedStack, savedDepth, savedUnfold
			if err != nil {
				return Term{}, err
			}
			lhs := App(rs, name, bound...)
			ax := T(SBool, "(forall (%s) (! (= %s %s) :pattern (%s)))", strings.Join(binders, " "), lhs.S, body.S, lhs.S)
			if e.axioms == nil {
				e.axioms = map[string]string{}
			}
			e.axioms[name] = "(assert " + ax.S + ")"
			if e.axiomRec == nil {
				e.axiomRec = map[string]bool{}
			}
			e.axiomRec[name] = e.p.specRec[key]
			if e.axiomIdx == nil {
				e.axiomIdx = map[string]int{}
			}
			e.axiomIdx[name] = len(e.decls)
		}
		app := App(rs, name, args...)
		if e.binder > 0 {
			return app, nil
		}
		if c := e.p.Contracts[key]; c != nil && c.Trusted {
			// fully uninterpreted: the definition is outside the spec subset (native code only)
			e.trusted["spec function "+key+" is uninterpreted (defined natively only)"] = true
			return app, nil
		}
		if d, seen := e.specApps[app.S]; seen && d <= e.unfold && e.relevant(e.specAppBlk[app.S], e.curBlock) {
			return app, nil
		}
		if e.unfold >= e.fuel {
			return app, nil
		}
		e.specApps[app.S] = e.unfold
		e.specAppBlk[app.S] = e.curBlock
		e.unfold++
		body, err := e.runPure(st, fn, args)
		e.unfold--
		if err != nil {
			return Term{}, err
		}
		e.assume(Eq(app, body))
		return app, nil
	}
	return e.runPure(st, fn, args)
}

func (e *Exec) runPure(st *State, fn *ssa.Function, args []Term) (Term, error) {
	key := funcKey(fn)
	if e.depth > 24 {
		return Term{}, fmt.Errorf("spec call depth exceeded at %s", key)
	}
	fr, err := e.newFrame(fn, nil)
	if err != nil {
		return Term{}, err
	}
	if len(fr.loops) > 0 {
		return Term{}, fmt.Errorf("spec function %s contains a loop: outside the spec subset", key)
	}
	scratch := st.clone()
	for i, p := range fn.Params {
		fr.vals[p] = e.wrap(scratch, args[i], "fresh")
	}
	e.pure++
	e.depth++
	nerr := len(e.errors)
	fr.run(scratch, True)
	e.depth--
	e.pure--
	if len(e.errors) > nerr {
		return Term{}, fmt.Errorf("errors in spec function %s: %s", key, strings.Join(e.errors[nerr:], "; "))
	}
	rets, rst, _ := fr.mergedReturn()
	if rst == nil || len(rets) != 1 {
		return Term{}, fmt.Errorf("spec function %s does not return a value", key)
	}
	return e.toTerm(rst, rets[0]), nil
}

// specBuiltin interprets helper functions declared in verif_spec.go.
func (fr *Frame) specBuiltin(st *State, pc Term, name string, args []Val, pos token.Pos) (Val, bool) {
	e := fr.e
	switch name {
	case "forallInt", "existsInt":
		lo := e.toTerm(st, args[0])
		hi := e.toTerm(st, args[1])
		f := args[2]
		if f.K != vClo {
			e.fail("%s: %s needs a function literal", fr.key, name)
			return termVal(True), true
		}
		e.nfresh++
		q := Term{fmt.Sprintf("q!%d", e.nfresh), SInt}
		e.binder++
		body, ok := fr.inline(st.clone(), True, f.Fn, []Val{termVal(q)}, f.Binds, pos)
		e.binder--
		if !ok || body.K != vTerm {
			e.fail("%s: cannot evaluate body of %s", fr.key, name)
			return termVal(True), true
		}
		rng := And(Cmp("<=", lo, q), Cmp("<", q, hi))
		if name == "forallInt" {
			return termVal(e.name("qf", T(SBool, "(forall ((%s Int)) %s)", q.S, Implies(rng, body.T).S))), true
		}
		return termVal(e.name("qe", T(SBool, "(exists ((%s Int)) %s)", q.S, And(rng, body.T).S))), true
	case "forallKey", "forallAnyKey":
		a := e.toTerm(st, args[0])
		b := a
		f := args[len(args)-1]
		if name == "forallKey" {
			b = e.toTerm(st, args[1])
		}
		if f.K != vClo {
			e.fail("%s: %s needs a function literal", fr.key, name)
			return termVal(True), true
		}
		e.nfresh++
		ksort := SString
		if d := e.p.U.DT(a.Sort); d != nil && d.Kind == "map" {
			ksort = d.Key
		}
		q := Term{fmt.Sprintf("q!%d", e.nfresh), ksort}
		e.binder++
		body, ok := fr.inline(st.clone(), True, f.Fn, []Val{termVal(q)}, f.Binds, pos)
		e.binder--
		if !ok || body.K != vTerm {
			e.fail("%s: cannot evaluate body of %s", fr.key, name)
			return termVal(True), true
		}
		dom := Or(e.p.U.MHas(a, q), e.p.U.MHas(b, q))
		return termVal(e.name("qk", T(SBool, "(forall ((%s %s)) %s)", q.S, ksort, Implies(dom, body.T).S))), true
	case "forallStr", "existsStr":
		f := args[0]
		if f.K != vClo {
			e.fail("%s: %s needs a function literal", fr.key, name)
			return termVal(True), true
		}
		e.nfresh++
		q := Term{fmt.Sprintf("q!%d", e.nfresh), SString}
		e.binder++
		body, ok := fr.inline(st.clone(), True, f.Fn, []Val{termVal(q)}, f.Binds, pos)
		e.binder--
		if !ok || body.K != vTerm {
			e.fail("%s: cannot evaluate body of %s", fr.key, name)
			return termVal(True), true
		}
		if name == "forallStr" {
			return termVal(T(SBool, "(forall ((%s String)) %s)", q.S, body.T.S)), true
		}
		return termVal(T(SBool, "(exists ((%s String)) %s)", q.S, body.T.S)), true
	case "same", "samePE":
		a := e.toTerm(st, args[0])
		b := e.toTerm(st, args[1])
		return termVal(Eq(a, b)), true
	case "mapHas":
		m := e.toTerm(st, args[0])
		k := e.toTerm(st, args[1])
		return termVal(e.p.U.MHas(m, k)), true
	}
	return Val{}, false
}

// evalQuant handles forallInt/existsInt/forallKey with a func literal of the form
// func(x T) bool { return EXPR } directly in a contract clause.
func (e *Exec) evalQuant(name string, x *ast.CallExpr, env *SpecEnv) (Val, error) {
	u := e.p.U
	fl, ok := x.Args[len(x.Args)-1].(*ast.FuncLit)
	if !ok || len(fl.Body.List) != 1 || len(fl.Type.Params.List) != 1 || len(fl.Type.Params.List[0].Names) != 1 {
		return Val{}, fmt.Errorf("%s needs func(x T) bool { return EXPR }", name)
	}
	ret, ok := fl.Body.List[0].(*ast.ReturnStmt)
	if !ok || len(ret.Results) != 1 {
		return Val{}, fmt.Errorf("%s: body must be a single return", name)
	}
	var ts []Term
	for _, a := range x.Args[:len(x.Args)-1] {
		v, err := e.evalExpr(a, env)
		if err != nil {
			return Val{}, err
		}
		t, err := e.valTerm(env, v)
		if err != nil {
			return Val{}, err
		}
		ts = append(ts, t)
	}
	vn := fl.Type.Params.List[0].Names[0].Name
	e.nfresh++
	sort := SInt
	if name == "forallAnyKey" {
		ts = append(ts, ts[0])
		name = "forallKey"
	}
	if name == "forallKey" {
		sort = SString
		if d := u.DT(ts[0].Sort); d != nil && d.Kind == "map" {
			sort = d.Key
		}
	}
	q := Term{fmt.Sprintf("q!%d", e.nfresh), sort}
	saved, had := env.vars[vn]
	env.vars[vn] = termVal(q)
	e.binder++
	bv, err := e.evalExpr(ret.Results[0], env)
	e.binder--
	if had {
		env.vars[vn] = saved
	} else {
		delete(env.vars, vn)
	}
	if err != nil {
		return Val{}, err
	}
	body, err := e.valTerm(env, bv)
	if err != nil {
		return Val{}, err
	}
	switch name {
	case "forallInt":
		rng := And(Cmp("<=", ts[0], q), Cmp("<", q, ts[1]))
		return termVal(T(SBool, "(forall ((%s Int)) %s)", q.S, Implies(rng, body).S)), nil
	case "existsInt":
		rng := And(Cmp("<=", ts[0], q), Cmp("<", q, ts[1]))
		return termVal(T(SBool, "(exists ((%s Int)) %s)", q.S, And(rng, body).S)), nil
	default:
		dom := Or(u.MHas(ts[0], q), u.MHas(ts[1], q))
		return termVal(T(SBool, "(forall ((%s %s)) %s)", q.S, sort, Implies(dom, body).S)), nil
	}
}
