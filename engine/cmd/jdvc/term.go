package main

import (
	"fmt"
	"go/types"
	"sort"
	"strings"
)

// Sort is an SMT-LIB sort name.
type Sort string

// Term is an SMT-LIB term with its sort.
type Term struct {
	S    string
	Sort Sort
}

const (
	SInt    Sort = "Int"
	SBool   Sort = "Bool"
	SReal   Sort = "Real"
	SString Sort = "String"
	SNode   Sort = "Node"
	SPE     Sort = "PathElem"
	SOpt    Sort = "Opt"
	SErr    Sort = "Err"
	SAny    Sort = "Any"
	SHash   Sort = "Hash8"
)

func T(sort Sort, format string, a ...interface{}) Term {
	return Term{S: fmt.Sprintf(format, a...), Sort: sort}
}

var (
	True  = Term{"true", SBool}
	False = Term{"false", SBool}
)

func IntLit(i int64) Term {
	if i < 0 {
		return Term{fmt.Sprintf("(- %d)", -i), SInt}
	}
	return Term{fmt.Sprintf("%d", i), SInt}
}

func StrLit(s string) Term {
	var b strings.Builder
	b.WriteByte('"')
	for _, r := range s {
		switch {
		case r == '"':
			b.WriteString(`""`)
		case r < 32 || r > 126 || r == '\\':
			fmt.Fprintf(&b, `\u{%x}`, r)
		default:
			b.WriteRune(r)
		}
	}
	b.WriteByte('"')
	return Term{b.String(), SString}
}

func And(ts ...Term) Term {
	var xs []string
	for _, t := range ts {
		if t.S == "true" {
			continue
		}
		if t.S == "false" {
			return False
		}
		xs = append(xs, t.S)
	}
	switch len(xs) {
	case 0:
		return True
	case 1:
		return Term{xs[0], SBool}
	}
	return Term{"(and " + strings.Join(xs, " ") + ")", SBool}
}

func Or(ts ...Term) Term {
	var xs []string
	for _, t := range ts {
		if t.S == "false" {
			continue
		}
		if t.S == "true" {
			return True
		}
		xs = append(xs, t.S)
	}
	switch len(xs) {
	case 0:
		return False
	case 1:
		return Term{xs[0], SBool}
	}
	return Term{"(or " + strings.Join(xs, " ") + ")", SBool}
}

func Not(t Term) Term {
	if t.S == "true" {
		return False
	}
	if t.S == "false" {
		return True
	}
	if strings.HasPrefix(t.S, "(not ") {
		return Term{t.S[5 : len(t.S)-1], SBool}
	}
	return Term{"(not " + t.S + ")", SBool}
}

func Implies(a, b Term) Term {
	if a.S == "true" {
		return b
	}
	if a.S == "false" || b.S == "true" {
		return True
	}
	return Term{"(=> " + a.S + " " + b.S + ")", SBool}
}

func Eq(a, b Term) Term {
	if a.S == b.S {
		return True
	}
	if a.Sort != b.Sort {
		// Int/Real coercion
		if a.Sort == SInt && b.Sort == SReal {
			a = ToReal(a)
		} else if a.Sort == SReal && b.Sort == SInt {
			b = ToReal(b)
		} else {
			panic(fmt.Sprintf("Eq sort mismatch: %s:%s vs %s:%s", a.S, a.Sort, b.S, b.Sort))
		}
	}
	return Term{"(= " + a.S + " " + b.S + ")", SBool}
}

func Ite(c, a, b Term) Term {
	if c.S == "true" {
		return a
	}
	if c.S == "false" {
		return b
	}
	if a.S == b.S {
		return a
	}
	if a.Sort != b.Sort {
		panic(fmt.Sprintf("Ite sort mismatch: %s:%s vs %s:%s", a.S, a.Sort, b.S, b.Sort))
	}
	if a.Sort == SBool {
		if a.S == "true" && b.S == "false" {
			return c
		}
		if a.S == "false" && b.S == "true" {
			return Not(c)
		}
		if b.S == "false" {
			return And(c, a)
		}
		if b.S == "true" {
			return Implies(c, a)
		}
		if a.S == "true" {
			return Or(c, b)
		}
		if a.S == "false" {
			return And(Not(c), b)
		}
	}
	return Term{"(ite " + c.S + " " + a.S + " " + b.S + ")", a.Sort}
}

func ToReal(a Term) Term {
	if a.Sort == SReal {
		return a
	}
	return Term{"(to_real " + a.S + ")", SReal}
}

func App(sort Sort, f string, args ...Term) Term {
	if len(args) == 0 {
		return Term{f, sort}
	}
	var b strings.Builder
	b.WriteString("(" + f)
	for _, a := range args {
		b.WriteByte(' ')
		b.WriteString(a.S)
	}
	b.WriteByte(')')
	return Term{b.String(), sort}
}

func Arith(op string, a, b Term) Term {
	if a.Sort == SInt && b.Sort == SInt {
		if op == "+" && a.S == "0" {
			return b
		}
		if (op == "+" || op == "-") && b.S == "0" {
			return a
		}
	}
	s := a.Sort
	if a.Sort != b.Sort {
		a, b = ToReal(a), ToReal(b)
		s = SReal
	}
	return Term{"(" + op + " " + a.S + " " + b.S + ")", s}
}

func Cmp(op string, a, b Term) Term {
	if a.Sort != b.Sort {
		a, b = ToReal(a), ToReal(b)
	}
	return Term{"(" + op + " " + a.S + " " + b.S + ")", SBool}
}

// ---------------------------------------------------------------------
// Sort universe

// DT describes a generated datatype.
type DT struct {
	Name   Sort
	Decl   string // full (declare-datatypes ...) text
	Fields []DTField
	Kind   string // "slice", "map", "struct", "ptr"
	Elem   Sort   // slice elem / map value / ptr target
	Key    Sort   // map key
}

type DTField struct {
	Name string // Go field name
	Sel  string // SMT selector
	Sort Sort
}

// Universe holds all generated sorts for one run.
type Universe struct {
	dts   map[Sort]*DT
	order []Sort
	byTyp map[string]Sort // types.Type string -> sort
	shifts map[Sort]bool  // element sorts for which shift_ functions are used
	useHash bool
}

func NewUniverse() *Universe {
	u := &Universe{dts: map[Sort]*DT{}, byTyp: map[string]Sort{}, shifts: map[Sort]bool{}}
	// prelude sorts (declared in prelude text, registered here for selectors)
	u.dts["SliceNode"] = &DT{Name: "SliceNode", Kind: "slice", Elem: SNode}
	u.dts["MapNode"] = &DT{Name: "MapNode", Kind: "map", Elem: SNode, Key: SString}
	u.dts["SliceAny"] = &DT{Name: "SliceAny", Kind: "slice", Elem: SAny}
	u.dts["MapAny"] = &DT{Name: "MapAny", Kind: "map", Elem: SAny, Key: SString}
	// map[interface{}]interface{} (yaml.v2): entries are indexed by an abstract id; ykey(m, id) is the key
	u.dts["MapYaml"] = &DT{Name: "MapYaml", Kind: "map", Elem: SAny, Key: SInt}
	u.dts["SliceString"] = &DT{Name: "SliceString", Kind: "slice", Elem: SString}
	// function values stored in containers (a map of funcs): an uninterpreted sort declared in the prelude
	u.dts["Func"] = &DT{Name: "Func", Kind: "opaque"}
	return u
}

const prelude = `
(declare-sort Hash8 0)
(declare-sort Func 0)
(declare-const zero_Func Func)
(declare-datatypes ((SliceString 0)) (((mk_SliceString (arr_SliceString (Array Int String)) (len_SliceString Int)))))
(declare-datatypes ((Node 0) (SliceNode 0) (MapNode 0)) (
  ((n_nil) (n_void) (n_null) (n_bool (bv Bool)) (n_num (nv Real)) (n_str (sv String))
   (n_arr (kind Int) (elems SliceNode)) (n_obj (ov MapNode)) (n_sori (soriv String)))
  ((mk_SliceNode (arr_SliceNode (Array Int Node)) (len_SliceNode Int)))
  ((mk_MapNode (dom_MapNode (Array String Bool)) (val_MapNode (Array String Node)) (card_MapNode Int)))))
(declare-datatypes ((PathElem 0)) (
  ((pe_nil) (pe_key (pk String)) (pe_idx (pi Int)) (pe_allkeys) (pe_set) (pe_mset)
   (pe_setkeys (psk MapNode)) (pe_msetkeys (pmk MapNode)) (pe_allvalues))))
(declare-datatypes ((Opt 0)) (
  ((o_nil) (o_merge) (o_set) (o_mset) (o_color) (o_precision (oprec Real)) (o_setkeys (okeys SliceString)) (o_path (opid Int)))))
(declare-datatypes ((Err 0)) (((e_nil) (e_mk (eid Int)))))
(declare-datatypes ((Any 0) (SliceAny 0) (MapAny 0) (MapYaml 0)) (
  ((a_nil) (a_bool (ab Bool)) (a_int (ai Int)) (a_real (ar Real)) (a_str (astr String)) (a_node (an Node))
   (a_hash (ah Hash8)) (a_slice (asl SliceAny)) (a_map (am MapAny)) (a_ymap (aym MapYaml)) (a_pe (ape PathElem)) (a_other (aoid Int) (aotag Int)))
  ((mk_SliceAny (arr_SliceAny (Array Int Any)) (len_SliceAny Int)))
  ((mk_MapAny (dom_MapAny (Array String Bool)) (val_MapAny (Array String Any)) (card_MapAny Int)))
  ((mk_MapYaml (dom_MapYaml (Array Int Bool)) (val_MapYaml (Array Int Any)) (card_MapYaml Int)))))
(declare-fun ykey (MapYaml Int) Any)
`

// Node kinds.
const (
	KArray    = 0
	KList     = 1
	KSet      = 2
	KMultiset = 3
)

func (u *Universe) SliceOf(elem Sort) Sort {
	name := Sort("Slice" + sanitize(string(elem)))
	if _, ok := u.dts[name]; ok {
		return name
	}
	dt := &DT{Name: name, Kind: "slice", Elem: elem}
	dt.Decl = fmt.Sprintf("(declare-datatypes ((%s 0)) (((mk_%s (arr_%s (Array Int %s)) (len_%s Int)))))",
		name, name, name, elem, name)
	u.dts[name] = dt
	u.order = append(u.order, name)
	return name
}

func (u *Universe) MapOf(key, elem Sort) Sort {
	name := Sort("Map" + sanitize(string(key)) + "_" + sanitize(string(elem)))
	if key == SString && elem == SNode {
		return "MapNode"
	}
	if key == SString && elem == SAny {
		return "MapAny"
	}
	if _, ok := u.dts[name]; ok {
		return name
	}
	dt := &DT{Name: name, Kind: "map", Elem: elem, Key: key}
	dt.Decl = fmt.Sprintf("(declare-datatypes ((%s 0)) (((mk_%s (dom_%s (Array %s Bool)) (val_%s (Array %s %s)) (card_%s Int)))))",
		name, name, name, key, name, key, elem, name)
	u.dts[name] = dt
	u.order = append(u.order, name)
	return name
}

// Opaque declares an uninterpreted sort.
func (u *Universe) Opaque(name string) Sort {
	sn := Sort(name)
	if _, ok := u.dts[sn]; ok {
		return sn
	}
	u.dts[sn] = &DT{Name: sn, Kind: "opaque", Decl: fmt.Sprintf("(declare-sort %s 0)\n(declare-const zero_%s %s)", name, name, name)}
	u.order = append(u.order, sn)
	return sn
}

func (u *Universe) PtrOf(elem Sort) Sort {
	name := Sort("Ptr" + sanitize(string(elem)))
	if _, ok := u.dts[name]; ok {
		return name
	}
	dt := &DT{Name: name, Kind: "ptr", Elem: elem}
	dt.Decl = fmt.Sprintf("(declare-datatypes ((%s 0)) (((nil_%s) (mk_%s (val_%s %s)))))", name, name, name, name, elem)
	u.dts[name] = dt
	u.order = append(u.order, name)
	return name
}

func sanitize(s string) string {
	r := strings.NewReplacer(" ", "_", "(", "", ")", "", ".", "_", "/", "_", "*", "P", "[", "_", "]", "_", "{", "", "}", "", ",", "_")
	return r.Replace(s)
}

func (u *Universe) StructOf(name string, st *types.Struct, sortOf func(types.Type) Sort) Sort {
	sn := Sort("St_" + sanitize(name))
	if _, ok := u.dts[sn]; ok {
		return sn
	}
	dt := &DT{Name: sn, Kind: "struct"}
	structSorts[sn] = true
	u.dts[sn] = dt // placeholder against recursion
	var fs []string
	for i := 0; i < st.NumFields(); i++ {
		f := st.Field(i)
		fsort := sortOf(f.Type())
		sel := fmt.Sprintf("f_%s_%s", sanitize(name), f.Name())
		dt.Fields = append(dt.Fields, DTField{Name: f.Name(), Sel: sel, Sort: fsort})
		fs = append(fs, fmt.Sprintf("(%s %s)", sel, fsort))
	}
	if len(fs) == 0 {
		dt.Decl = fmt.Sprintf("(declare-datatypes ((%s 0)) (((mk_%s))))", sn, sn)
	} else {
		dt.Decl = fmt.Sprintf("(declare-datatypes ((%s 0)) (((mk_%s %s))))", sn, sn, strings.Join(fs, " "))
	}
	u.order = append(u.order, sn)
	return sn
}

func (u *Universe) Decls() string {
	var b strings.Builder
	b.WriteString(prelude)
	for _, s := range u.order {
		b.WriteString(u.dts[s].Decl)
		b.WriteByte('\n')
	}
	b.WriteString("(declare-const hash_zero Hash8)\n")
	if u.useHash {
		b.WriteString("(declare-fun hash_set (Hash8 Int Int) Hash8)\n(declare-fun hash_get (Hash8 Int) Int)\n")
		b.WriteString("(assert (forall ((h Hash8) (i Int) (b Int)) (! (= (hash_get (hash_set h i b) i) b) :pattern ((hash_set h i b)))))\n")
		b.WriteString("(assert (forall ((h Hash8) (i Int) (j Int) (b Int)) (! (=> (not (= i j)) (= (hash_get (hash_set h i b) j) (hash_get h j))) :pattern ((hash_get (hash_set h i b) j)))))\n")
	}
	var es []string
	for e := range u.shifts {
		es = append(es, string(e))
	}
	sort.Strings(es)
	for _, e := range es {
		f := "shift_" + sanitize(e)
		fmt.Fprintf(&b, "(declare-fun %s ((Array Int %s) Int) (Array Int %s))\n", f, e, e)
		fmt.Fprintf(&b, "(assert (forall ((a (Array Int %s)) (o Int) (k Int)) (! (= (select (%s a o) k) (select a (+ k o))) :pattern ((select (%s a o) k)))))\n", e, f, f)
		fmt.Fprintf(&b, "(assert (forall ((a (Array Int %s)) (o Int) (p Int)) (! (= (%s (%s a o) p) (%s a (+ o p))) :pattern ((%s (%s a o) p)))))\n", e, f, f, f, f, f)
	}
	return b.String()
}

func (u *Universe) DT(s Sort) *DT { return u.dts[s] }

func (u *Universe) IsSlice(s Sort) bool { d := u.dts[s]; return d != nil && d.Kind == "slice" }
func (u *Universe) IsMap(s Sort) bool   { d := u.dts[s]; return d != nil && d.Kind == "map" }
func (u *Universe) IsPtr(s Sort) bool   { d := u.dts[s]; return d != nil && d.Kind == "ptr" }

// slice helpers
func (u *Universe) SArr(s Term) Term {
	d := u.dts[s.Sort]
	return App(Sort(fmt.Sprintf("(Array Int %s)", d.Elem)), "arr_"+string(s.Sort), s)
}
func (u *Universe) SLen(s Term) Term { return App(SInt, "len_"+string(s.Sort), s) }
func (u *Universe) MkSlice(sort Sort, arr, ln Term) Term {
	return App(sort, "mk_"+string(sort), arr, ln)
}
func (u *Universe) SIndex(s Term, i Term) Term {
	d := u.dts[s.Sort]
	return App(d.Elem, "select", u.SArr(s), i)
}

// Shift returns the array a viewed from offset o: shift(a,o)[k] = a[k+o].
func (u *Universe) Shift(elem Sort, a, o Term) Term {
	if o.S == "0" {
		return a
	}
	u.shifts[elem] = true
	return App(u.ArrSort(elem), "shift_"+sanitize(string(elem)), a, o)
}

// SubSlice is s[lo:hi] as a slice term.
func (u *Universe) SubSlice(s Term, lo, hi Term) Term {
	d := u.dts[s.Sort]
	return u.MkSlice(s.Sort, u.Shift(d.Elem, u.SArr(s), lo), Arith("-", hi, lo))
}
func (u *Universe) ArrSort(elem Sort) Sort { return Sort(fmt.Sprintf("(Array Int %s)", elem)) }

// map helpers
func (u *Universe) MDom(m Term) Term {
	d := u.dts[m.Sort]
	return App(Sort(fmt.Sprintf("(Array %s Bool)", d.Key)), "dom_"+string(m.Sort), m)
}
func (u *Universe) MVal(m Term) Term {
	d := u.dts[m.Sort]
	return App(Sort(fmt.Sprintf("(Array %s %s)", d.Key, d.Elem)), "val_"+string(m.Sort), m)
}
func (u *Universe) MCard(m Term) Term { return App(SInt, "card_"+string(m.Sort), m) }
func (u *Universe) MHas(m Term, k Term) Term {
	return App(SBool, "select", u.MDom(m), k)
}
func (u *Universe) MGet(m Term, k Term) Term {
	d := u.dts[m.Sort]
	return App(d.Elem, "select", u.MVal(m), k)
}
func (u *Universe) MkMap(sort Sort, dom, val, card Term) Term {
	return App(sort, "mk_"+string(sort), dom, val, card)
}

// Zero value of a sort.
func (u *Universe) Zero(s Sort) Term {
	switch s {
	case SInt:
		return IntLit(0)
	case SBool:
		return False
	case SReal:
		return Term{"0.0", SReal}
	case SString:
		return StrLit("")
	case SNode:
		return Term{"n_nil", SNode}
	case SPE:
		return Term{"pe_nil", SPE}
	case SOpt:
		return Term{"o_nil", SOpt}
	case SErr:
		return Term{"e_nil", SErr}
	case SAny:
		return Term{"a_nil", SAny}
	case SHash:
		return Term{"hash_zero", SHash}
	}
	d := u.dts[s]
	if d == nil {
		panic("Zero: unknown sort " + string(s))
	}
	switch d.Kind {
	case "slice":
		return u.MkSlice(s, Term{fmt.Sprintf("((as const (Array Int %s)) %s)", d.Elem, u.Zero(d.Elem).S), u.ArrSort(d.Elem)}, IntLit(0))
	case "map":
		return u.MkMap(s,
			Term{fmt.Sprintf("((as const (Array %s Bool)) false)", d.Key), ""},
			Term{fmt.Sprintf("((as const (Array %s %s)) %s)", d.Key, d.Elem, u.Zero(d.Elem).S), ""},
			IntLit(0))
	case "ptr":
		return Term{"nil_" + string(s), s}
	case "opaque":
		return Term{"zero_" + string(s), s}
	case "iface":
		return Term{"nil_" + string(s), s}
	case "struct":
		var args []Term
		for _, f := range d.Fields {
			args = append(args, u.Zero(f.Sort))
		}
		return App(s, "mk_"+string(s), args...)
	}
	panic("Zero: " + string(s))
}

// struct helpers
func (u *Universe) Field(t Term, idx int) Term {
	d := u.dts[t.Sort]
	f := d.Fields[idx]
	return App(f.Sort, f.Sel, t)
}
func (u *Universe) FieldByName(t Term, name string) (Term, bool) {
	d := u.dts[t.Sort]
	if d == nil {
		return Term{}, false
	}
	for i, f := range d.Fields {
		if f.Name == name {
			return u.Field(t, i), true
		}
	}
	return Term{}, false
}
func (u *Universe) WithField(t Term, idx int, v Term) Term {
	d := u.dts[t.Sort]
	var args []Term
	for i := range d.Fields {
		if i == idx {
			args = append(args, v)
		} else {
			args = append(args, u.Field(t, i))
		}
	}
	return App(t.Sort, "mk_"+string(t.Sort), args...)
}

func sortedKeys[V any](m map[string]V) []string {
	var ks []string
	for k := range m {
		ks = append(ks, k)
	}
	sort.Strings(ks)
	return ks
}
