package main

import (
	"sync"
	"bytes"
	"encoding/json"
	"fmt"
	"go/types"
	"os"
	"os/exec"
	"path/filepath"
	"regexp"
	"strings"
	"time"

	"golang.org/x/tools/go/ssa"
)

// Runtime assertion checking (RAC): the contract of a function is evaluated natively on the real
// code, either on one decoded counterexample (replay) or on every tuple of a bounded universe
// (bounded stand-in, labelled bounded, never counted as proved).

type racParam struct {
	Name string
	Type string // Go type relative to the package
	Gen  string // generator expression (slice of values)
	Lit  string // literal for replay mode
}

type RACResult struct {
	Func     string   `json:"function"`
	Cases    int64    `json:"cases"`
	PreOK    int64    `json:"precondition_held"`
	Fails    int64    `json:"failures"`
	Failures []RACFailure `json:"failure_samples"`
	Samples  []string `json:"samples"`
	Universe string   `json:"universe"`
	Error    string   `json:"error,omitempty"`
	WallS    float64  `json:"wall_s"`
	Total    int64    `json:"space_size"`
	Exhaustive bool   `json:"exhaustive"`
}

type RACFailure struct {
	Inputs map[string]string `json:"inputs"`
	Lits   map[string]string `json:"lits"`
	What   string            `json:"what"`
	Class  string            `json:"class,omitempty"`
}

func relType(p *Program, t types.Type) string {
	return types.TypeString(t, func(pkg *types.Package) string {
		if pkg == p.Pkg.Types {
			return ""
		}
		return pkg.Name()
	})
}

func racGen(ts string, tier int) (gen string, ok bool) {
	switch ts {
	case "JsonNode":
		return fmt.Sprintf("verifNodes(%d)", tier), true
	case "[]JsonNode":
		return fmt.Sprintf("verifNodeLists(%d)", tier), true
	case "Path":
		return fmt.Sprintf("verifPaths(%d)", tier), true
	case "patchStrategy":
		return "verifStrategies()", true
	case "[]Option":
		return "verifOptionSets()", true
	case "[]Metadata":
		return "verifMetadataSets()", true
	case "jsonList", "jsonArray", "jsonSet", "jsonMultiset":
		return fmt.Sprintf("verifArrays[%s](%d)", ts, tier), true
	case "jsonObject":
		return fmt.Sprintf("verifObjects(%d)", tier), true
	case "string":
		return "verifStrings()", true
	case "jsonString":
		return "verifConv[string, jsonString](verifStrings())", true
	case "jsonStringOrInteger":
		return "verifConv[string, jsonStringOrInteger](verifStrings())", true
	case "PathKey":
		return "verifConv[string, PathKey](verifStrings())", true
	case "int":
		return "verifInts()", true
	case "PathIndex":
		return "verifConv[int, PathIndex](verifInts())", true
	case "bool":
		return "verifBools()", true
	case "jsonBool":
		return "[]jsonBool{false, true}", true
	case "jsonNumber":
		return "[]jsonNumber{0, 1, 1.5, 2, -1}", true
	case "voidNode":
		return "[]voidNode{{}}", true
	case "jsonNull":
		return "[]jsonNull{{}}", true
	case "Diff":
		return fmt.Sprintf("verifDiffs(%d)", tier), true
	case "DiffElement":
		return fmt.Sprintf("verifHunks(%d)", tier), true
	}
	return "", false
}

func racClone(ts, x string) string {
	switch ts {
	case "JsonNode":
		return "verifCloneNode(" + x + ")"
	case "[]JsonNode":
		return "verifCloneNodes(" + x + ")"
	case "Path":
		return "verifClonePath(" + x + ")"
	case "jsonList", "jsonArray", "jsonSet", "jsonMultiset":
		return ts + "(verifCloneNodes(" + x + "))"
	case "jsonObject":
		return "verifCloneNode(" + x + ").(jsonObject)"
	case "[]Option":
		return "verifCloneOptions(" + x + ")"
	case "[]Metadata":
		return "verifCloneMetadata(" + x + ")"
	case "Diff":
		return "verifCloneDiff(" + x + ")"
	case "DiffElement":
		return "verifCloneDiff(Diff{" + x + "})[0]"
	}
	return x
}

var reOld = regexp.MustCompile(`\bold\(\s*([A-Za-z_][A-Za-z0-9_]*)\s*\)`)

// clauseToGo translates a contract clause to a Go boolean expression.
func clauseToGo(text string) string {
	parts := splitImplies(text)
	for i := range parts {
		parts[i] = reOld.ReplaceAllString(parts[i], "old_$1")
	}
	out := "(" + parts[len(parts)-1] + ")"
	for i := len(parts) - 2; i >= 0; i-- {
		out = "(!(" + parts[i] + ") || " + out + ")"
	}
	return out
}

type racClause struct {
	Label string
	Text  string
	Iface bool
}

// racSource generates the harness for fn. lits != nil selects replay mode (one case).
func (p *Program) racSource(key string, tier int, capN int64, seed int64, lits map[string]string) (string, string, error) {
	body, uni, err := p.racBody(key, tier, capN, seed, lits, 0)
	if err != nil {
		return "", "", err
	}
	return p.racHeader() + body, uni, nil
}

func (p *Program) racHeader() string {
	var b bytes.Buffer
	fmt.Fprintf(&b, "//go:build verif\n\npackage %s\n\nimport (\n\t\"encoding/json\"\n\t\"fmt\"\n\t\"os\"\n\t\"testing\"\n)\n\n", p.Pkg.Types.Name())
	b.WriteString("var _ = json.Marshal\nvar _ = os.Getenv\n\nfunc verifMaxFail() int64 {\n\tif os.Getenv(\"VERIF_RAC_MAXFAIL\") != \"\" {\n\t\treturn 100000\n\t}\n\treturn 200\n}\n\n")
	b.WriteString("type verifRes struct {\n\tpre bool\n\tfail string\n\tinputs map[string]string\n\tlits map[string]string\n}\n\n")
	return b.String()
}

func (p *Program) racBody(key string, tier int, capN int64, seed int64, lits map[string]string, idx int) (string, string, error) {
	fn := p.Funcs[key]
	if fn == nil {
		return "", "", fmt.Errorf("no function %s", key)
	}
	con := p.Contracts[key]
	icon, ikey := p.ifaceContractFor(fn)
	if con == nil && icon == nil {
		return "", "", fmt.Errorf("no contract for %s", key)
	}
	var params []racParam
	var universe []string
	for _, prm := range fn.Params {
		ts := relType(p, prm.Type())
		name := prm.Name()
		if name == "_" || name == "" {
			name = fmt.Sprintf("p%d", len(params))
		}
		rp := racParam{Name: name, Type: ts}
		if lits != nil {
			l, ok := lits[prm.Name()]
			if !ok {
				return "", "", fmt.Errorf("no literal for parameter %s", prm.Name())
			}
			rp.Gen = "[]" + ts + "{" + l + "}"
		} else {
			g, ok := racGen(ts, tier)
			if con != nil && con.Universe[prm.Name()] != "" {
				g, ok = strings.ReplaceAll(con.Universe[prm.Name()], "TIER", fmt.Sprint(tier)), true
			}
			if !ok {
				return "", "", fmt.Errorf("no bounded universe for parameter type %s", ts)
			}
			rp.Gen = g
		}
		universe = append(universe, name+" in "+rp.Gen)
		params = append(params, rp)
	}
	isMethod := fn.Signature.Recv() != nil
	var ifaceNames []string
	if icon != nil {
		ifaceNames = p.ifaceMethodParamNames("JsonNode", fn.Name())
	}
	var reqs, enss []racClause
	if icon != nil {
		for i, c := range icon.Requires {
			reqs = append(reqs, racClause{fmt.Sprintf("requires(%s/%d)", ikey, i), c.Text, true})
		}
		for i, c := range icon.Ensures {
			if clauseFor(c, currentProperty) {
				enss = append(enss, racClause{fmt.Sprintf("ensures(%s/%d)", ikey, i), c.Text, true})
			}
		}
		for i, c := range icon.EnsuresB {
			if clauseFor(c, currentProperty) {
				enss = append(enss, racClause{fmt.Sprintf("ensures_bounded(%s/%d)", ikey, i), c.Text, true})
			}
		}
	}
	if con != nil {
		for i, c := range con.Requires {
			reqs = append(reqs, racClause{fmt.Sprintf("requires(own/%d)", i), c.Text, false})
		}
		for i, c := range con.Ensures {
			if clauseFor(c, currentProperty) {
				enss = append(enss, racClause{fmt.Sprintf("ensures(own/%d)", i), c.Text, false})
			}
		}
		for i, c := range con.EnsuresB {
			if clauseFor(c, currentProperty) {
				enss = append(enss, racClause{fmt.Sprintf("ensures_bounded(own/%d)", i), c.Text, false})
			}
		}
	}
	var b bytes.Buffer
	w := func(format string, a ...interface{}) { fmt.Fprintf(&b, format, a...) }
	// case function
	w("func verifCase_%d(", idx)
	for i, prm := range params {
		if i > 0 {
			w(", ")
		}
		w("%s %s", prm.Name, prm.Type)
	}
	w(") (r verifRes) {\n")
	for _, prm := range params {
		w("\told_%s := %s\n\t_ = old_%s\n", prm.Name, racClone(prm.Type, prm.Name), prm.Name)
	}
	alias := func(iface bool) string {
		if !iface {
			return ""
		}
		var sb strings.Builder
		off := 0
		if isMethod {
			off = 1
			fmt.Fprintf(&sb, "self := JsonNode(%s); old_self := JsonNode(old_%s); _, _ = self, old_self; ", params[0].Name, params[0].Name)
		}
		for i, n := range ifaceNames {
			if i+off < len(params) && n != params[i+off].Name {
				fmt.Fprintf(&sb, "%s := %s; old_%s := old_%s; _, _ = %s, old_%s; ", n, params[i+off].Name, n, params[i+off].Name, n, n)
			}
		}
		return sb.String()
	}
	w("\tr.inputs = map[string]string{")
	for _, prm := range params {
		w("%q: verifShow(%s), ", prm.Name, prm.Name)
	}
	w("}\n")
	w("\tr.lits = map[string]string{")
	for i, prm := range params {
		pn := prm.Name
		if i < len(fn.Params) {
			pn = fn.Params[i].Name()
		}
		w("%q: verifLit(%s), ", pn, prm.Name)
	}
	w("}\n")
	w("\tr.pre = true\n")
	for _, c := range reqs {
		w("\tif r.pre && !func() bool { %sreturn %s }() {\n\t\tr.pre = false\n\t}\n", alias(c.Iface), clauseToGo(c.Text))
	}
	w("\tif !r.pre {\n\t\treturn\n\t}\n")
	w("\tdefer func() {\n\t\tif x := recover(); x != nil {\n\t\t\tr.fail = \"panic: \" + fmt.Sprint(x)\n\t\t}\n\t}()\n")
	// call
	nres := fn.Signature.Results().Len()
	var rets []string
	for i := 0; i < nres; i++ {
		rets = append(rets, fmt.Sprintf("ret%d", i))
	}
	call := ""
	var argNames []string
	for _, prm := range params {
		argNames = append(argNames, prm.Name)
	}
	variadic := fn.Signature.Variadic()
	if variadic {
		argNames[len(argNames)-1] += "..."
	}
	if isMethod {
		call = fmt.Sprintf("%s.%s(%s)", params[0].Name, fn.Name(), strings.Join(argNames[1:], ", "))
	} else {
		name := fn.Name()
		if i := strings.Index(name, "["); i > 0 {
			k := funcKey(fn)
			name = k
		}
		call = fmt.Sprintf("%s(%s)", name, strings.Join(argNames, ", "))
	}
	if nres > 0 {
		w("\t%s := %s\n", strings.Join(rets, ", "), call)
		for _, r := range rets {
			w("\t_ = %s\n", r)
		}
		w("\tret := ret0\n\t_ = ret\n")
	} else {
		w("\t%s\n", call)
	}
	for _, c := range enss {
		w("\tif !func() bool { %sreturn %s }() {\n\t\tr.fail = %q\n\t\treturn\n\t}\n", alias(c.Iface), clauseToGo(c.Text), c.Label+": "+c.Text)
	}
	w("\treturn\n}\n\n")
	// driver
	w("func TestVerifRAC_%d(t *testing.T) {\n", idx)
	for i, prm := range params {
		w("\tg%d := %s\n", i, prm.Gen)
	}
	// zipped parameters share the index of the first of them
	leader := -1
	follower := map[int]bool{}
	if con != nil {
		for i, prm := range params {
			pn := prm.Name
			if i < len(fn.Params) {
				pn = fn.Params[i].Name()
			}
			if containsStr(con.Zip, pn) {
				if leader < 0 {
					leader = i
				} else {
					follower[i] = true
				}
			}
		}
	}
	w("\ttotal := int64(1)\n")
	for i := range params {
		if follower[i] {
			w("\tif len(g%d) != len(g%d) {\n\t\tt.Fatalf(\"zipped universes differ in length\")\n\t}\n", i, leader)
			continue
		}
		w("\ttotal *= int64(len(g%d))\n", i)
	}
	w("\tcapN, seed := int64(%d), int64(%d)\n\tn := total\n\tif n > capN {\n\t\tn = capN\n\t}\n", capN, seed)
	w("\tvar ran, pre, fails int64\n\tshown := 0\n")
	w("\tfor k := int64(0); k < n; k++ {\n\t\tidx := verifPick(total, capN, seed, k)\n")
	for i := range params {
		if follower[i] {
			continue
		}
		w("\t\ti%d := idx %% int64(len(g%d))\n\t\tidx /= int64(len(g%d))\n", i, i, i)
	}
	for i := range params {
		if follower[i] {
			w("\t\ti%d := i%d\n", i, leader)
		}
	}
	w("\t\tr := verifCase_%d(", idx)
	for i, prm := range params {
		if i > 0 {
			w(", ")
		}
		w("%s", racClone(prm.Type, fmt.Sprintf("g%d[i%d]", i, i)))
	}
	w(")\n\t\tran++\n\t\tif r.pre {\n\t\t\tpre++\n\t\t\tif shown < 3 && (pre%%97 == 1) {\n\t\t\t\tshown++\n\t\t\t\tj, _ := json.Marshal(r.inputs)\n\t\t\t\tfmt.Printf(\"VERIF-RAC-SAMPLE IDX %%s\\n\", j)\n\t\t\t}\n\t\t}\n")
	w("\t\tif r.fail != \"\" {\n\t\t\tfails++\n\t\t\tif fails <= verifMaxFail() {\n\t\t\t\tj, _ := json.Marshal(map[string]interface{}{\"inputs\": r.inputs, \"lits\": r.lits, \"what\": r.fail})\n\t\t\t\tfmt.Printf(\"VERIF-RAC-FAIL IDX %%s\\n\", j)\n\t\t\t}\n\t\t}\n\t}\n")
	w("\tfmt.Printf(\"VERIF-RAC-SUMMARY IDX cases=%%d pre=%%d fails=%%d total=%%d\\n\", ran, pre, fails, total)\n}\n")
	return strings.ReplaceAll(b.String(), " IDX ", fmt.Sprintf(" %d ", idx)), strings.Join(universe, "; "), nil
}

// runRAC runs the harness for one function.
func (p *Program) runRAC(key string, tier int, capN int64, seed int64, lits map[string]string, workDir string, timeoutS int) *RACResult {
	return p.runRACBatch([]string{key}, tier, capN, seed, lits, workDir, timeoutS)[key]
}

// runRACBatch generates one harness with a driver per function, injects it with -overlay and runs it
// once (one compilation for the whole batch).
func (p *Program) runRACBatch(keys []string, tier int, capN int64, seed int64, lits map[string]string, workDir string, timeoutS int) map[string]*RACResult {
	out := map[string]*RACResult{}
	t0 := time.Now()
	var src bytes.Buffer
	src.WriteString(p.racHeader())
	var order []string
	for _, key := range keys {
		res := &RACResult{Func: key}
		out[key] = res
		fcap := capN
		if c := p.Contracts[key]; c != nil && lits == nil {
			if tier == 0 && c.CapQuick > 0 {
				fcap = c.CapQuick
			} else if tier > 0 && c.CapThorough > 0 {
				fcap = c.CapThorough
			}
		}
		body, universe, err := p.racBody(key, tier, fcap, seed, lits, len(order))
		if err != nil {
			res.Error = err.Error()
			continue
		}
		res.Universe = universe
		src.WriteString(body)
		order = append(order, key)
	}
	if len(order) == 0 {
		return out
	}
	tag := fmt.Sprintf("%s_%d", fileSafe(filepath.Base(p.Dir)), len(order))
	if len(order) == 1 {
		tag = fileSafe(order[0])
	}
	os.MkdirAll(workDir, 0o755)
	hfile := filepath.Join(workDir, "rac_"+tag+"_test.go")
	fail := func(msg string) map[string]*RACResult {
		for _, k := range order {
			out[k].Error = msg
		}
		return out
	}
	if err := os.WriteFile(hfile, src.Bytes(), 0o644); err != nil {
		return fail(err.Error())
	}
	ov := map[string]map[string]string{"Replace": {filepath.Join(p.Dir, "zz_verif_rac_test.go"): hfile}}
	for f, data := range loadOverlay {
		of := filepath.Join(workDir, "ov_"+filepath.Base(f))
		os.WriteFile(of, data, 0o644)
		ov["Replace"][f] = of
	}
	ovData, _ := json.Marshal(ov)
	ovFile := filepath.Join(workDir, "rac_"+tag+"_overlay.json")
	os.WriteFile(ovFile, ovData, 0o644)
	tmp := filepath.Join(workDir, "tmp_"+tag)
	os.MkdirAll(tmp, 0o755)
	defer os.RemoveAll(tmp)
	cmd := exec.Command("go", "test", "-tags", "verif", "-overlay", ovFile, "-vet=off", "-count=1",
		fmt.Sprintf("-timeout=%ds", timeoutS), "-v", "-run", "^TestVerifRAC_", ".")
	cmd.Dir = p.Dir
	cmd.Env = append(os.Environ(), "GOFLAGS=-mod=mod", "GOPROXY=off", "TMPDIR="+tmp)
	for _, k := range order {
		if c := p.Contracts[k]; c != nil && c.NeedsCLI {
			j, t, err := buildCLIs(workDir)
			if err != nil {
				return fail("cannot build the jd binaries: " + err.Error())
			}
			cmd.Env = append(cmd.Env, "VERIF_JD_BIN="+j, "VERIF_JDTOP_BIN="+t)
			break
		}
	}
	var outBuf bytes.Buffer
	cmd.Stdout = &outBuf
	cmd.Stderr = &outBuf
	runErr := cmd.Run()
	saw := map[int]bool{}
	parseIdx := func(rest string) (int, string, bool) {
		sp := strings.Index(rest, " ")
		if sp < 0 {
			return 0, "", false
		}
		var idx int
		if _, err := fmt.Sscanf(rest[:sp], "%d", &idx); err != nil || idx < 0 || idx >= len(order) {
			return 0, "", false
		}
		return idx, rest[sp+1:], true
	}
	for _, line := range strings.Split(outBuf.String(), "\n") {
		switch {
		case strings.HasPrefix(line, "VERIF-RAC-FAIL "):
			if idx, rest, ok := parseIdx(strings.TrimPrefix(line, "VERIF-RAC-FAIL ")); ok {
				var f RACFailure
				if json.Unmarshal([]byte(rest), &f) == nil {
					out[order[idx]].Failures = append(out[order[idx]].Failures, f)
				}
			}
		case strings.HasPrefix(line, "VERIF-RAC-SAMPLE "):
			if idx, rest, ok := parseIdx(strings.TrimPrefix(line, "VERIF-RAC-SAMPLE ")); ok {
				out[order[idx]].Samples = append(out[order[idx]].Samples, rest)
			}
		case strings.HasPrefix(line, "VERIF-RAC-SUMMARY "):
			if idx, rest, ok := parseIdx(strings.TrimPrefix(line, "VERIF-RAC-SUMMARY ")); ok {
				r := out[order[idx]]
				fmt.Sscanf(rest, "cases=%d pre=%d fails=%d total=%d", &r.Cases, &r.PreOK, &r.Fails, &r.Total)
				r.Exhaustive = r.Total <= r.Cases
				saw[idx] = true
			}
		}
	}
	if len(order) > 1 && strings.Contains(outBuf.String(), "[build failed]") {
		// one clause does not compile natively: isolate it by running the functions one by one
		for _, k := range order {
			out[k] = p.runRACBatch([]string{k}, tier, capN, seed, lits, workDir, timeoutS)[k]
		}
		return out
	}
	wall := time.Since(t0).Seconds()
	for i, k := range order {
		out[k].WallS = wall / float64(len(order))
		if !saw[i] {
			tail := outBuf.String()
			if len(tail) > 3000 {
				tail = tail[len(tail)-3000:]
			}
			out[k].Error = fmt.Sprintf("harness did not complete (%v): %s", runErr, tail)
		}
	}
	return out
}

var _ = ssa.Function{}

var cliOnce sync.Once
var cliJD, cliTop string
var cliErr error

// buildCLIs builds both binaries from /repo's working tree (with any self-test overlay applied).
func buildCLIs(workDir string) (string, string, error) {
	cliOnce.Do(func() {
		dir := filepath.Join(workDir, "..", "clibin")
		os.MkdirAll(dir, 0o755)
		dir, _ = filepath.Abs(dir)
		cliJD, cliTop = filepath.Join(dir, "jd-v2"), filepath.Join(dir, "jd-top")
		ovArgs := []string{}
		if len(loadOverlay) > 0 {
			ov := map[string]map[string]string{"Replace": {}}
			for f, data := range loadOverlay {
				of := filepath.Join(dir, "ov_"+filepath.Base(f))
				os.WriteFile(of, data, 0o644)
				ov["Replace"][f] = of
			}
			ovData, _ := json.Marshal(ov)
			ovFile := filepath.Join(dir, "overlay.json")
			os.WriteFile(ovFile, ovData, 0o644)
			ovArgs = []string{"-overlay", ovFile}
		}
		for _, b := range []struct{ out, dir, pkg string }{{cliJD, repoRoot + "/v2", "./jd"}, {cliTop, repoRoot, "."}} {
			args := append(append([]string{"build"}, ovArgs...), "-o", b.out, b.pkg)
			cmd := exec.Command("go", args...)
			cmd.Dir = b.dir
			cmd.Env = append(os.Environ(), "GOFLAGS=-mod=mod", "GOPROXY=off")
			if out, err := cmd.CombinedOutput(); err != nil {
				cliErr = fmt.Errorf("%v: %s", err, out)
				return
			}
		}
	})
	return cliJD, cliTop, cliErr
}
