package main

import (
	"os"
	"fmt"
	"go/token"
	"go/types"
	"strings"

	"golang.org/x/tools/go/ssa"
)

func (e *Exec) ifaceKey(c *ssa.CallCommon) string {
	t := c.Value.Type()
	name := namedName(t)
	if name == "jsonNodeInternals" {
		name = "JsonNode"
	}
	return name + "." + c.Method.Name()
}

func (fr *Frame) call(st *State, pc Term, ins *ssa.Call) Val {
	e := fr.e
	c := ins.Common()
	pos := ins.Pos()
	// builtins
	if b, ok := c.Value.(*ssa.Builtin); ok {
		return fr.builtin(st, pc, ins, b)
	}
	var args []Val
	for i, a := range c.Args {
		v := fr.get(st, a)
		var pt types.Type
		sig := c.Signature()
		if sig != nil {
			off := 0
			if !c.IsInvoke() && sig.Recv() != nil {
				off = 1
			}
			if i-off >= 0 && i-off < sig.Params().Len() {
				pt = sig.Params().At(i - off).Type()
			} else if off == 1 && i == 0 {
				pt = sig.Recv().Type()
			}
		}
		if pt != nil {
			v = fr.coerceNil(st, v, pt)
		}
		args = append(args, v)
	}
	resT := ins.Type()
	if c.IsInvoke() {
		recv := fr.get(st, c.Value)
		key := e.ifaceKey(c)
		con := e.p.Contracts[key]
		if key == "Lcs.Values" {
			// assumed contract of github.com/yudai/golcs: Values() is a common subsequence of the two inputs
			rt := e.toTerm(st, recv)
			res := e.freshVal(st, "lcs", resT, "fresh", pc)
			if ab, ok := e.lcsArgs[rt.S]; ok {
				if sub := e.p.SpecFuncs["specIsSubseq"]; sub != nil {
					rterm := e.toTerm(st, res)
					for _, x := range ab {
						if g, err := e.specCall(st, sub, []Term{rterm, x}); err == nil {
							e.assume(Implies(pc, g))
						}
					}
					e.note("assumed: golcs Values() returns a common subsequence of its inputs")
				}
			}
			return res
		}
		if con == nil {
			e.note("interface call %s has no contract: result unconstrained", key)
			return e.freshVal(st, "inv_"+c.Method.Name(), resT, "call", pc)
		}
		sig := c.Method.Type().(*types.Signature)
		var names []string
		for i := 0; i < sig.Params().Len(); i++ {
			names = append(names, sig.Params().At(i).Name())
		}
		rt := e.toTerm(st, recv)
		if rt.Sort == SNode {
			// hint: unfold validNode(receiver) so that "valid implies non-nil" is available
			if vn := e.p.SpecFuncs["validNode"]; vn != nil {
				e.specCall(st, vn, []Term{rt})
			}
			fr.safety("nil-call", pos, pc, Not(Eq(rt, Term{"n_nil", SNode})), "method call on nil interface")
		}
		return fr.applyContracts(st, pc, []conPart{{key: key, con: con, names: names, args: args, recv: &recv}}, resT, pos)
	}
	callee := c.StaticCallee()
	if callee != nil && (callee.String() == "sort.Sort" || callee.String() == "sort.Stable" ||
		((callee.String() == "sort.Slice" || callee.String() == "sort.SliceStable") && len(c.Args) == 2)) && len(c.Args) >= 1 {
		// sort.Sort(x) with x a slice type converted to sort.Interface: operate on the slice itself
		if mi, ok := c.Args[0].(*ssa.MakeInterface); ok {
			args[0] = fr.get(st, mi.X)
		}
	}
	var binds []Val
	if callee == nil {
		fv := fr.get(st, c.Value)
		if fv.K == vClo {
			callee = fv.Fn
			binds = fv.Binds
		} else {
			e.note("dynamic call through %s: result unconstrained", c.Value.Type())
			return e.freshVal(st, "dyn", resT, "call", pc)
		}
	} else if mc, ok := c.Value.(*ssa.MakeClosure); ok {
		for _, b := range mc.Bindings {
			binds = append(binds, fr.get(st, b))
		}
	}
	key := funcKey(callee)
	// spec helpers and spec functions
	if callee.Pkg == e.p.SSA || (callee.Origin() != nil && callee.Origin().Pkg == e.p.SSA) {
		if v, ok := fr.specBuiltin(st, pc, callee.Name(), args, pos); ok {
			return v
		}
		if _, isSpec := e.p.SpecFuncs[key]; isSpec {
			var ts []Term
			for _, a := range args {
				ts = append(ts, e.toTerm(st, a))
			}
			r, err := e.specCall(st, callee, ts)
			if err != nil {
				e.fail("%s: spec call %s: %v", fr.key, key, err)
				return e.freshVal(st, "spec", resT, "call", pc)
			}
			return e.wrap(st, r, "fresh")
		}
		icon, ikey := e.p.ifaceContractFor(callee)
		if con := e.p.Contracts[key]; (con != nil || icon != nil) && e.pure == 0 {
			var parts []conPart
			if icon != nil && len(args) > 0 {
				self := termVal(e.makeInterface(st, args[0], callee.Params[0].Type(), e.p.Pkg.Types.Scope().Lookup("JsonNode").Type()))
				parts = append(parts, conPart{key: ikey, con: icon, names: e.p.ifaceMethodParamNames("JsonNode", callee.Name()), args: args[1:], recv: &self, recvArg: &args[0]})
			}
			if con != nil {
				var names []string
				for _, p := range callee.Params {
					names = append(names, p.Name())
				}
				parts = append(parts, conPart{key: key, con: con, names: names, args: args})
			}
			return fr.applyContracts(st, pc, parts, resT, pos)
		}
		if callee.Blocks != nil {
			if v, ok := fr.inline(st, pc, callee, args, binds, pos); ok {
				return v
			}
			e.note("call of %s not inlined (loops without invariants, recursion or depth): result unconstrained", key)
			return e.freshVal(st, "call_"+callee.Name(), resT, "call", pc)
		}
	}
	if callee.Parent() != nil && callee.Blocks != nil {
		if v, ok := fr.inline(st, pc, callee, args, binds, pos); ok {
			return v
		}
	}
	// external calls may write through pointer arguments: havoc the pointees
	for i, a := range c.Args {
		var ptr ssa.Value
		if mi, ok := a.(*ssa.MakeInterface); ok {
			if _, isPtr := mi.X.Type().Underlying().(*types.Pointer); isPtr {
				ptr = mi.X
			}
		} else if _, isPtr := a.Type().Underlying().(*types.Pointer); isPtr {
			ptr = a
		}
		if ptr == nil {
			continue
		}
		pv := fr.get(st, ptr)
		if pv.K != vAddr || pv.NilAddr || pv.R == nil || pv.R.Kind != 0 || len(pv.Path) != 0 {
			continue
		}
		elem := ptr.Type().Underlying().(*types.Pointer).Elem()
		if e.prov != nil {
			e.prov.write(e, pv.R, pos, "external call "+callee.String())
		}
		nv := e.freshVal(st, "ext_out", elem, "fresh", pc)
		st.cell[pv.R] = nv
		name := callee.String()
		if (name == "encoding/json.Unmarshal" || name == "gopkg.in/yaml.v2.Unmarshal") && i == 1 && nv.K != vNone {
			e.note("assumed: %s stores a plain native value (validAny) into its target", name)
			e.assumeValidAnyDeep(st, e.toTerm(st, nv))
		}
	}
	return fr.external(st, pc, callee, args, resT, pos)
}

// assumeValidAnyDeep assumes validAny for every interface{}-typed component of a freshly
// unmarshalled value (the value itself, or the interface{} fields of a slice of structs).
func (e *Exec) assumeValidAnyDeep(st *State, t Term) {
	va := e.p.SpecFuncs["validAny"]
	if va == nil {
		return
	}
	u := e.p.U
	if t.Sort == SAny {
		if a, err := e.specCall(st, va, []Term{t}); err == nil {
			e.assume(a)
		}
		return
	}
	if u.IsSlice(t.Sort) {
		d := u.DT(t.Sort)
		if ed := u.DT(d.Elem); ed != nil && ed.Kind == "struct" {
			for fi, f := range ed.Fields {
				if f.Sort != SAny {
					continue
				}
				e.nfresh++
				q := Term{fmt.Sprintf("q!%d", e.nfresh), SInt}
				e.binder++
				a, err := e.specCall(st, va, []Term{u.Field(u.SIndex(t, q), fi)})
				e.binder--
				if err == nil {
					e.assume(T(SBool, "(forall ((%s Int)) (=> (and (<= 0 %s) (< %s %s)) %s))", q.S, q.S, q.S, u.SLen(t).S, a.S))
				}
			}
		}
	}
}

// inline executes the callee body in place.
func (fr *Frame) inline(st *State, pc Term, callee *ssa.Function, args []Val, binds []Val, pos token.Pos) (Val, bool) {
	e := fr.e
	key := funcKey(callee)
	if e.depth >= 8 {
		return Val{}, false
	}
	for _, k := range e.callStack {
		if k == key {
			return Val{}, false
		}
	}
	// loops need invariants: allowed if the enclosing contract keys them (closures) or they are range-index loops
	con := fr.con
	sub, err := e.newFrame(callee, con)
	if err != nil {
		e.fail("%v", err)
		return Val{}, false
	}
	sub.parent = fr
	sub.env = fr.env
	if e.pure == 0 {
		for _, li := range sub.loops {
			if li.Spec == nil && !strings.HasPrefix(li.Head.Comment, "rangeindex") && !isCounterLoop(li) {
				return Val{}, false
			}
		}
	}
	for i, p := range callee.Params {
		if i < len(args) {
			sub.vals[p] = args[i]
		}
	}
	for i, fv := range callee.FreeVars {
		if i < len(binds) {
			sub.vals[fv] = binds[i]
		}
	}
	e.depth++
	e.callStack = append(e.callStack, key)
	sub.run(st, pc)
	e.callStack = e.callStack[:len(e.callStack)-1]
	e.depth--
	rets, rst, retPC := sub.mergedReturn()
	if rst == nil {
		// callee never returns normally (it exits or panics on every path): the caller's path ends here
		fr.noReturn = true
		return e.freshVal(st, "noret", callee.Signature.Results(), "call", pc), true
	}
	if sub.sawNoReturn {
		// some callee paths end the process (os.Exit): continue only under the condition of a normal return
		fr.pcNarrow = e.name("retpc", retPC)
		fr.sawNoReturn = true
	}
	// adopt callee's final state
	st.mem = rst.mem
	st.cell = rst.cell
	switch len(rets) {
	case 0:
		return Val{K: vNone}, true
	case 1:
		return rets[0], true
	}
	return Val{K: vTuple, Tup: rets}, true
}

type conPart struct {
	key     string
	con     *Contract
	names   []string
	args    []Val
	recv    *Val // value bound to "self" (interface-level contracts)
	recvArg *Val // the concrete receiver argument behind self (static method calls)
}

// applyContracts uses callee contracts at a call site: requires become obligations, modified
// arguments are havocked, the result is fresh, ensures are assumed.
func (fr *Frame) applyContracts(st *State, pc Term, parts []conPart, resT types.Type, pos token.Pos) Val {
	e := fr.e
	snap := func(v Val) Val {
		if v.K == vSlice || v.K == vMap {
			return termVal(e.toTerm(st, v))
		}
		return v
	}
	olds := make([]map[string]Val, len(parts))
	for _, part := range parts {
		if part.con.Trusted {
			e.trusted[part.key] = true
		}
	}
	for pi, part := range parts {
		old := map[string]Val{}
		for i, n := range part.names {
			if i < len(part.args) {
				old[n] = snap(part.args[i])
			}
		}
		if part.recv != nil {
			old["self"] = snap(*part.recv)
		}
		olds[pi] = old
		env := &SpecEnv{e: e, st: st, vars: old, old: old}
		for i, rq := range part.con.Requires {
			g, err := e.evalClause(rq.Text, env)
			if err != nil {
				e.fail("%s: requires %d of %s: %v", fr.key, i, part.key, err)
				continue
			}
			e.oblige("requires", fmt.Sprintf("%s#requires(%s/%d)@%s", e.fnKey, part.key, i, e.posStr(pos)), pos, pc, g, rq.Text)
		}
	}
	// frame: havoc modified/consumed arguments
	for _, part := range parts {
		for _, m := range append(append([]string{}, part.con.Modifies...), part.con.Consumes...) {
			var target *Val
			if m == "self" {
				if part.recvArg != nil {
					target = part.recvArg
				} else if part.recv != nil {
					target = part.recv
				}
			}
			for i, n := range part.names {
				if n == m && i < len(part.args) {
					target = &part.args[i]
				}
			}
			if target == nil {
				continue
			}
			switch target.K {
			case vSlice, vMap:
				if e.prov != nil {
					e.prov.write(e, target.R, pos, "call of "+part.key+" (modifies "+m+")")
				}
				old := st.mem[target.R]
				c := e.fresh("hv_"+m, old.Sort)
				if target.K == vMap {
					e.assumeTypeInv(c, nil)
				}
				st.mem[target.R] = c
			}
		}
	}
	// callees that end the process: the call site becomes an exit point described by the callee's
	// ensures_exit clauses
	for pi, part := range parts {
		if !part.con.NoReturn || e.world == nil {
			continue
		}
		pre := map[string]Val{}
		for k, v := range olds[pi] {
			pre[k] = v
		}
		for _, w := range worldVars {
			pre[w.name] = st.cell[e.world[w.name]]
		}
		xst := st.clone()
		for _, w := range worldVars {
			c := e.fresh("wx_"+w.name, w.sort)
			xst.cell[e.world[w.name]] = termVal(c)
		}
		code := e.fresh("exitcode", SInt)
		xenv := &SpecEnv{e: e, st: xst, vars: map[string]Val{"exit": termVal(code)}, old: pre}
		for k, v := range olds[pi] {
			xenv.vars[k] = v
		}
		for i, c := range part.con.EnsuresExit {
			g, err := e.evalClause(c.Text, xenv)
			if err != nil {
				if strings.Contains(err.Error(), "unknown identifier") {
					// the clause speaks about the callee's locals: not usable at the call site (dropped: fewer assumptions)
					continue
				}
				e.fail("%s: ensures_exit %d of %s: %v", fr.key, i, part.key, err)
				continue
			}
			e.assume(Implies(pc, g))
		}
		e.exits = append(e.exits, exitPoint{pc: pc, code: code, st: xst, pos: pos, block: e.curBlock, nAssume: len(e.assumes), nDecl: len(e.decls)})
		fr.noReturn = true
		return e.freshVal(st, "noret", resT, "fresh", pc)
	}
	resLabel := "fresh"
	isFresh := false
	for _, part := range parts {
		for _, f := range part.con.Fresh {
			if f == "ret0" || f == "ret" {
				isFresh = true
			}
		}
		for ai, a := range part.args {
			if ai < len(part.names) && containsStr(part.con.NoRetain, part.names[ai]) {
				if !e.p.retains(part.key, part.names[ai]) {
					continue // the callee does not keep this argument's storage in its result
				}
				// the callee keeps it: the caller must hand over storage it owns (fresh, no spare-capacity alias)
				goal := True
				for _, lab := range strings.Split(joinLabel(labelOf(a), ownOf(a)), "|") {
					if strings.HasPrefix(lab, "spare:") || strings.HasPrefix(lab, "param:") || lab == "global" {
						goal = False
					}
				}
				e.oblige("fresh", fmt.Sprintf("%s#owned-arg(%s/%s)@%s", fr.key, part.key, part.names[ai], e.posStr(pos)), pos, pc, goal,
					"the callee keeps this argument in its result, so the caller must pass storage it owns (clone before passing); labels: "+joinLabel(labelOf(a), ownOf(a)))
			}
			resLabel = joinLabel(resLabel, plainLabel(labelOf(a)))
		}
		if part.recvArg != nil {
			resLabel = joinLabel(resLabel, plainLabel(labelOf(*part.recvArg)))
		} else if part.recv != nil {
			resLabel = joinLabel(resLabel, plainLabel(labelOf(*part.recv)))
		}
	}
	if isFresh {
		resLabel = "fresh"
	}
	res := e.freshVal(st, "r_"+sanitize(parts[len(parts)-1].key), resT, resLabel, pc)
	for pi, part := range parts {
		post := &SpecEnv{e: e, st: st, vars: map[string]Val{}, old: olds[pi]}
		for i, n := range part.names {
			if i < len(part.args) {
				post.vars[n] = part.args[i]
			}
		}
		if part.recv != nil {
			post.vars["self"] = *part.recv
		}
		if res.K == vTuple {
			for i, r := range res.Tup {
				post.vars[fmt.Sprintf("ret%d", i)] = r
			}
		} else if res.K != vNone {
			post.vars["ret0"] = res
			post.vars["ret"] = res
		}
		for i, en := range part.con.Ensures {
			g, err := e.evalClause(en.Text, post)
			if err != nil {
				if strings.Contains(err.Error(), "unknown identifier") {
					// the clause speaks about the callee's locals: not usable at the call site (dropped: fewer assumptions)
					continue
				}
				e.fail("%s: ensures %d of %s: %v", fr.key, i, part.key, err)
				continue
			}
			e.assume(Implies(pc, g))
		}
	}
	return res
}

func (fr *Frame) builtin(st *State, pc Term, ins *ssa.Call, b *ssa.Builtin) Val {
	e := fr.e
	u := e.p.U
	c := ins.Common()
	switch b.Name() {
	case "len", "cap":
		x := fr.get(st, c.Args[0])
		switch x.K {
		case vSlice:
			return termVal(x.Len)
		case vMap:
			return termVal(u.MCard(st.mem[x.R]))
		case vTerm:
			if x.T.Sort == SString {
				return termVal(App(SInt, "str.len", x.T))
			}
			if x.T.Sort == "Nil" {
				return termVal(IntLit(0))
			}
		case vAddr:
			if x.R.Kind == 1 {
				return termVal(IntLit(int64(x.R.N)))
			}
		}
		e.note("unmodelled len of %s", c.Args[0].Type())
		return e.freshVal(st, "len", ins.Type(), "fresh", pc)
	case "append":
		s := fr.coerceNil(st, fr.get(st, c.Args[0]), ins.Type())
		if len(c.Args) == 1 {
			return s
		}
		tv := fr.get(st, c.Args[1])
		if tv.K == vTerm && tv.T.Sort == SString {
			e.note("append of string bytes abstracted")
			return e.freshVal(st, "appstr", ins.Type(), "fresh", pc)
		}
		t := fr.coerceNil(st, tv, ins.Type())
		if s.K != vSlice || t.K != vSlice {
			e.fail("%s: append on non-slices", fr.key)
			return e.freshVal(st, "app", ins.Type(), "fresh", pc)
		}
		return fr.appendVals(st, s, t, e.p.sortOf(ins.Type()))
	case "copy":
		dst := fr.get(st, c.Args[0])
		src := fr.get(st, c.Args[1])
		if dst.K != vSlice || src.K != vSlice {
			e.note("unmodelled copy")
			return e.freshVal(st, "copy", ins.Type(), "fresh", pc)
		}
		if e.prov != nil {
			e.prov.write(e, dst.R, ins.Pos(), "copy")
		}
		dst.R.ElemLabel = joinLabel(elemLabel(dst.R), plainLabel(elemLabel(src.R)))
		n := e.name("cpn", Ite(Cmp("<", dst.Len, src.Len), dst.Len, src.Len))
		old := st.mem[dst.R]
		srcArr := st.mem[src.R]
		na := e.fresh("cp", old.Sort)
		e.assume(T(SBool, "(forall ((k Int)) (! (=> (and (<= %s k) (< k (+ %s %s))) (= (select %s k) (select %s (+ %s (- k %s))))) :pattern ((select %s k))))",
			dst.Off.S, dst.Off.S, n.S, na.S, srcArr.S, src.Off.S, dst.Off.S, na.S))
		e.assume(T(SBool, "(forall ((k Int)) (! (=> (or (< k %s) (>= k (+ %s %s))) (= (select %s k) (select %s k))) :pattern ((select %s k))))",
			dst.Off.S, dst.Off.S, n.S, na.S, old.S, na.S))
		st.mem[dst.R] = na
		return termVal(n)
	case "delete":
		m := fr.get(st, c.Args[0])
		k := e.toTerm(st, fr.get(st, c.Args[1]))
		if m.K != vMap {
			e.fail("%s: delete on non-map", fr.key)
			return Val{K: vNone}
		}
		if e.prov != nil {
			e.prov.write(e, m.R, ins.Pos(), "delete")
		}
		cur := st.mem[m.R]
		has := u.MHas(cur, k)
		st.mem[m.R] = e.name("del", u.MkMap(m.S,
			App(u.MDom(cur).Sort, "store", u.MDom(cur), k, False),
			u.MVal(cur),
			Ite(has, Arith("-", u.MCard(cur), IntLit(1)), u.MCard(cur))))
		return Val{K: vNone}
	case "min", "max":
		x := e.toTerm(st, fr.get(st, c.Args[0]))
		y := e.toTerm(st, fr.get(st, c.Args[1]))
		if b.Name() == "min" {
			return termVal(Ite(Cmp("<", x, y), x, y))
		}
		return termVal(Ite(Cmp(">", x, y), x, y))
	case "print", "println":
		return Val{K: vNone}
	}
	e.note("unmodelled builtin %s", b.Name())
	return e.freshVal(st, "builtin", ins.Type(), "fresh", pc)
}

// appendVals models append(s, t...) as a fresh slice value.
func (fr *Frame) appendVals(st *State, s, t Val, sort Sort) Val {
	e := fr.e
	u := e.p.U
	d := u.DT(sort)
	sArr := st.mem[s.R]
	tArr := st.mem[t.R]
	label := s.R.Label
	if label != "fresh" && !strings.HasPrefix(label, "spare:") {
		label = "spare:" + label
	}
	if os.Getenv("JDVC_DEBUG_SPARE") != "" && strings.HasPrefix(label, "spare:") {
		fmt.Fprintf(os.Stderr, "SPARE at %s: root %s#%d label=%s elemOwn=%s\n", e.posStr(e.curPos), s.R.Name, s.R.ID, s.R.Label, elemOwn(s.R))
	}
	if s.SubOf {
		// append(x[:k], ...) writes into x's own elements beyond k (in place while capacity lasts):
		// a write to x's storage for the frame check, and those elements become unknown
		if e.prov != nil {
			e.prov.write(e, s.R, e.curPos, "append to a sub-slice (overwrites the elements after it)")
		}
		old := st.mem[s.R]
		hv := e.fresh("subapp", old.Sort)
		lim := Arith("+", s.Off, s.Len)
		e.assume(T(SBool, "(forall ((k Int)) (! (=> (< k %s) (= (select %s k) (select %s k))) :pattern ((select %s k))))", lim.S, hv.S, old.S, hv.S))
		st.mem[s.R] = hv
	}
	r := e.newRoot("app", 1, d.Elem, label)
	r.ElemLabel = joinLabel(plainLabel(elemLabel(s.R)), plainLabel(elemLabel(t.R)))
	r.ElemOwn = joinLabel(elemOwn(s.R), elemOwn(t.R))
	if r.ElemOwn == label || plainLabel(r.ElemOwn) == plainLabel(label) {
		// nested storage defaults to the provenance of the elements' containers, not of this append
		r.ElemOwn = joinLabel(stripSelf(elemOwn(s.R), s.R.Label), stripSelf(elemOwn(t.R), t.R.Label))
	}
	if e.binder > 0 {
		e.fail("append under quantifier")
	}
	na := e.fresh("app", u.ArrSort(d.Elem))
	ln := e.name("applen", Arith("+", s.Len, t.Len))
	// prefix
	if s.Len.S != "0" {
		src := fmt.Sprintf("(select %s (+ %s k))", sArr.S, s.Off.S)
		if s.Off.S == "0" {
			src = fmt.Sprintf("(select %s k)", sArr.S)
		}
		e.assume(T(SBool, "(forall ((k Int)) (! (=> (and (<= 0 k) (< k %s)) (= (select %s k) %s)) :pattern ((select %s k)) :pattern (%s)))",
			s.Len.S, na.S, src, na.S, src))
	}
	// suffix: ground facts for short literal lengths, else quantified
	if n, ok := smallLit(t.Len); ok {
		for j := 0; j < n; j++ {
			e.assume(Eq(App(d.Elem, "select", na, Arith("+", s.Len, IntLit(int64(j)))),
				App(d.Elem, "select", tArr, Arith("+", t.Off, IntLit(int64(j))))))
		}
	} else {
		e.assume(T(SBool, "(forall ((k Int)) (! (=> (and (<= %s k) (< k %s)) (= (select %s k) (select %s (+ %s (- k %s))))) :pattern ((select %s k))))",
			s.Len.S, ln.S, na.S, tArr.S, t.Off.S, s.Len.S, na.S))
	}
	st.mem[r] = na
	return Val{K: vSlice, R: r, Off: IntLit(0), Len: ln, S: sort}
}

func smallLit(t Term) (int, bool) {
	var n int
	if _, err := fmt.Sscanf(t.S, "%d", &n); err == nil && fmt.Sprintf("%d", n) == t.S && n >= 0 && n <= 4 {
		return n, true
	}
	return 0, false
}

// ---------------------------------------------------------------------
// External functions: assumed contracts

func externalModifies(callee *ssa.Function) []int {
	name := callee.String()
	switch {
	case strings.HasPrefix(name, "golang.org/x/exp/slices.Reverse"), strings.HasPrefix(name, "slices.Reverse"):
		return []int{0}
	case name == "sort.Strings", name == "sort.Sort", name == "sort.Ints", name == "sort.Stable", name == "sort.Float64s",
		name == "sort.Slice", name == "sort.SliceStable",
		strings.HasPrefix(name, "slices.Sort"), strings.HasPrefix(name, "golang.org/x/exp/slices.Sort"),
		strings.HasPrefix(name, "slices.Delete"), strings.HasPrefix(name, "golang.org/x/exp/slices.Delete"),
		strings.HasPrefix(name, "slices.Insert"), strings.HasPrefix(name, "golang.org/x/exp/slices.Insert"),
		strings.HasPrefix(name, "slices.Compact"), strings.HasPrefix(name, "golang.org/x/exp/slices.Compact"):
		// in-place operations of the standard library on their first argument
		return []int{0}
	}
	return nil
}

func (fr *Frame) external(st *State, pc Term, callee *ssa.Function, args []Val, resT types.Type, pos token.Pos) Val {
	e := fr.e
	name := callee.String()
	if i := strings.Index(name, "["); i > 0 {
		name = name[:i]
	}
	e.externals[name] = true
	switch name {
	case "os.Exit":
		if e.world != nil {
			e.exits = append(e.exits, exitPoint{pc: pc, code: e.toTerm(st, args[0]), st: st.clone(), pos: pos, block: e.curBlock, nAssume: len(e.assumes), nDecl: len(e.decls)})
		}
		// execution does not continue past os.Exit
		fr.noReturn = true
		return Val{K: vNone}
	case "fmt.Print", "fmt.Println", "fmt.Printf":
		if e.world != nil {
			printed := e.fresh("printed", SString)
			if name != "fmt.Printf" && len(args) == 1 && args[0].K == vSlice {
				a0 := e.p.U.SIndex(e.toTerm(st, args[0]), IntLit(0))
				txt := App(SString, "astr", a0)
				if name == "fmt.Println" {
					txt = App(SString, "str.++", txt, StrLit("\n"))
				}
				e.assume(Implies(And(Eq(args[0].Len, IntLit(1)), App(SBool, "(_ is a_str)", a0)), Eq(printed, txt)))
			}
			e.worldSet(st, "stdout", App(SString, "str.++", e.worldGet(st, "stdout"), printed))
		}
		return e.freshVal(st, "print", resT, "fresh", pc)
	case "log.Printf", "log.Print", "log.Println", "log.Fatal", "log.Fatalf":
		if e.world != nil {
			e.worldSet(st, "stderrLines", Arith("+", e.worldGet(st, "stderrLines"), IntLit(1)))
		}
		return Val{K: vNone}
	case "io/ioutil.WriteFile", "os.WriteFile":
		errc := e.fresh("werr", SErr)
		if e.world != nil {
			e.worldSet(st, "fileWritten", True)
			e.worldSet(st, "fileName", e.toTerm(st, args[0]))
			data := e.toTerm(st, args[1])
			e.declareFun("string_of_bytes_"+string(data.Sort), []Sort{data.Sort}, SString)
			content := App(SString, "string_of_bytes_"+string(data.Sort), data)
			e.worldSet(st, "fileData", content)
			e.worldSet(st, "writeErr", errc)
		}
		return termVal(errc)
	case "fmt.Errorf", "errors.New":
		c := e.fresh("err", SInt)
		return termVal(App(SErr, "e_mk", c))
	case "encoding/json.Marshal", "gopkg.in/yaml.v2.Marshal":
		// assumed: marshalling jd values (no NaN/Inf, string keys, no cycles) does not fail
		e.note("assumed: %s returns a nil error on jd values", name)
		return Val{K: vTuple, Tup: []Val{e.freshVal(st, "marshal", resT.(*types.Tuple).At(0).Type(), "fresh", pc), termVal(Term{"e_nil", SErr})}}
	case "golang.org/x/exp/slices.Clone", "slices.Clone":
		if args[0].K == vSlice {
			src := args[0]
			t := e.toTerm(st, src)
			r := e.newRoot("clone", 1, e.p.U.DT(src.S).Elem, "fresh")
			r.ElemLabel = plainLabel(elemLabel(src.R))
			st.mem[r] = e.p.U.SArr(t)
			return Val{K: vSlice, R: r, Off: IntLit(0), Len: src.Len, S: src.S}
		}
	case "github.com/yudai/golcs.New":
		tok := e.fresh("lcs", SInt)
		t := App(SAny, "a_other", tok, IntLit(int64(e.typeTag(resT))))
		if e.lcsArgs == nil {
			e.lcsArgs = map[string][]Term{}
		}
		if len(args) == 2 && args[0].K == vSlice && args[1].K == vSlice {
			e.lcsArgs[t.S] = []Term{e.toTerm(st, args[0]), e.toTerm(st, args[1])}
		}
		return termVal(t)
	case "github.com/josephburnett/jd/v2.SetKeys":
		if args[0].K == vSlice {
			return termVal(App(SOpt, "o_setkeys", e.asSort(e.toTerm(st, args[0]), "SliceString")))
		}
	case "github.com/josephburnett/jd/v2.Precision":
		return termVal(App(SOpt, "o_precision", e.toTerm(st, args[0])))
	case "math.Abs":
		x := e.toTerm(st, args[0])
		return termVal(Ite(Cmp("<", x, realLit(0)), Term{"(- " + x.S + ")", SReal}, x))
	case "fmt.Sprintf", "fmt.Sprint":
		return termVal(e.fresh("sprintf", SString))
	case "strconv.Itoa":
		e.declareFun("itoa", []Sort{SInt}, SString)
		return termVal(App(SString, "itoa", e.toTerm(st, args[0])))
	case "strconv.Atoi":
		// (int, error): err == nil iff looksLikeInt(s); value = atoi(s); itoa(atoi(s)) need not equal s
		e.declareFun("atoi_ok", []Sort{SString}, SBool)
		e.declareFun("atoi", []Sort{SString}, SInt)
		s := e.toTerm(st, args[0])
		errc := e.fresh("err", SInt)
		return Val{K: vTuple, Tup: []Val{
			termVal(App(SInt, "atoi", s)),
			termVal(Ite(App(SBool, "atoi_ok", s), Term{"e_nil", SErr}, App(SErr, "e_mk", errc))),
		}}
	case "golang.org/x/exp/slices.Reverse", "slices.Reverse":
		if args[0].K == vSlice {
			s := args[0]
			if e.prov != nil {
				e.prov.write(e, s.R, pos, "slices.Reverse")
			}
			old := st.mem[s.R]
			na := e.fresh("rev", old.Sort)
			e.assume(T(SBool, "(forall ((k Int)) (=> (and (<= 0 k) (< k %s)) (= (select %s (+ %s k)) (select %s (+ %s (- (- %s 1) k))))))",
				s.Len.S, na.S, s.Off.S, old.S, s.Off.S, s.Len.S))
			e.assume(T(SBool, "(forall ((k Int)) (=> (or (< k %s) (>= k (+ %s %s))) (= (select %s k) (select %s k))))",
				s.Off.S, s.Off.S, s.Len.S, na.S, old.S))
			st.mem[s.R] = na
		}
		return Val{K: vNone}
	case "sort.Strings", "sort.Sort":
		if args[0].K == vSlice {
			s := args[0]
			if e.prov != nil {
				e.prov.write(e, s.R, pos, name)
			}
			old := st.mem[s.R]
			na := e.fresh("sorted", old.Sort)
			st.mem[s.R] = na
			// assumed contract: the result is a permutation of the input (stated as mutual
			// membership), unchanged outside the slice; sort.Strings additionally yields ascending order
			e.assume(T(SBool, "(forall ((i Int)) (! (=> (and (<= 0 i) (< i %s)) (exists ((j Int)) (and (<= 0 j) (< j %s) (= (select %s (+ %s i)) (select %s (+ %s j)))))) :pattern ((select %s (+ %s i)))))",
				s.Len.S, s.Len.S, na.S, s.Off.S, old.S, s.Off.S, na.S, s.Off.S))
			e.assume(T(SBool, "(forall ((j Int)) (! (=> (and (<= 0 j) (< j %s)) (exists ((i Int)) (and (<= 0 i) (< i %s) (= (select %s (+ %s i)) (select %s (+ %s j)))))) :pattern ((select %s (+ %s j)))))",
				s.Len.S, s.Len.S, na.S, s.Off.S, old.S, s.Off.S, old.S, s.Off.S))
			if name == "sort.Strings" {
				e.assume(T(SBool, "(forall ((i Int) (j Int)) (=> (and (<= 0 i) (< i j) (< j %s)) (str.<= (select %s (+ %s i)) (select %s (+ %s j)))))",
					s.Len.S, na.S, s.Off.S, na.S, s.Off.S))
			}
		}
		return Val{K: vNone}
	}
	for _, m := range externalModifies(callee) {
		if m < len(args) && args[m].K == vSlice {
			if e.prov != nil {
				e.prov.write(e, args[m].R, pos, name)
			}
			old := st.mem[args[m].R]
			st.mem[args[m].R] = e.fresh("extmod", old.Sort)
		}
	}
	e.note("assumed: external %s does not panic; result unconstrained", name)
	return e.freshVal(st, "ext_"+callee.Name(), resT, "call", pc)
}

// stripSelf removes from an element-storage label the components that only stem from the
// container's own label (the default when nothing was stored).
func stripSelf(elem, self string) string {
	if elem == self {
		return "fresh"
	}
	return elem
}

func containsStr(l []string, x string) bool {
	for _, y := range l {
		if y == x {
			return true
		}
	}
	return false
}

// isCounterLoop: the syntactic shape `for i := ...; i < B; i++` that detectCounter gives an automatic
// invariant to (checked again, precisely, when the loop head is executed).
func isCounterLoop(li *LoopInfo) bool {
	h := li.Head
	if len(h.Instrs) == 0 {
		return false
	}
	ifi, ok := h.Instrs[len(h.Instrs)-1].(*ssa.If)
	if !ok {
		return false
	}
	cmp, ok := ifi.Cond.(*ssa.BinOp)
	if !ok || cmp.Op != token.LSS {
		return false
	}
	phi, ok := cmp.X.(*ssa.Phi)
	if !ok || phi.Block() != h || len(phi.Edges) != 2 {
		return false
	}
	for i, pred := range h.Preds {
		if pred == h || li.Body[pred] {
			add, ok := phi.Edges[i].(*ssa.BinOp)
			if !ok || add.Op != token.ADD || add.X != ssa.Value(phi) {
				return false
			}
			if c, ok := add.Y.(*ssa.Const); !ok || c.Value == nil || c.Int64() != 1 {
				return false
			}
		}
	}
	return true
}
