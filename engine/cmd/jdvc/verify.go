package main

import (
	"os"
	"fmt"
	"go/types"
	"sort"
	"strings"

	"golang.org/x/tools/go/ssa"
)

// FuncResult is the outcome of generating obligations for one function.
type FuncResult struct {
	Key       string
	Obls      []*Obligation
	Errors    []string
	Notes     []string
	Externals []string
	exec      *Exec
}

// ifaceContractFor returns the interface-level contract a method must satisfy, if any.
func (p *Program) ifaceContractFor(fn *ssa.Function) (*Contract, string) {
	recv := fn.Signature.Recv()
	if recv == nil {
		return nil, ""
	}
	for _, ifn := range []string{"JsonNode"} {
		obj := p.Pkg.Types.Scope().Lookup(ifn)
		if obj == nil {
			continue
		}
		it, ok := obj.Type().Underlying().(*types.Interface)
		if !ok {
			continue
		}
		if !types.Implements(recv.Type(), it) {
			continue
		}
		key := ifn + "." + fn.Name()
		if c := p.Contracts[key]; c != nil {
			return c, key
		}
	}
	return nil, ""
}

func (p *Program) ifaceMethodParamNames(iface, method string) []string {
	obj := p.Pkg.Types.Scope().Lookup(iface)
	if obj == nil {
		return nil
	}
	it := obj.Type().Underlying().(*types.Interface)
	for i := 0; i < it.NumMethods(); i++ {
		m := it.Method(i)
		if m.Name() == method {
			sig := m.Type().(*types.Signature)
			var ns []string
			for j := 0; j < sig.Params().Len(); j++ {
				ns = append(ns, sig.Params().At(j).Name())
			}
			return ns
		}
	}
	return nil
}

func (p *Program) verifyFunc(key string, safetyOnly bool) *FuncResult {
	res := &FuncResult{Key: key}
	fn := p.Funcs[key]
	if fn == nil {
		res.Errors = append(res.Errors, "no such function "+key)
		return res
	}
	con := p.Contracts[key]
	e := newExec(p, key)
	res.exec = e
	e.contract = con
	e.externals = map[string]bool{}
	e.prov = newProvCtx(con)
	defer func() {
		if r := recover(); r != nil {
			if os.Getenv("JDVC_PANIC") != "" {
				panic(r)
			}
			res.Errors = append(res.Errors, fmt.Sprintf("engine panic: %v", r))
		}
		res.Obls = e.obls
		res.Errors = append(res.Errors, e.errors...)
		for n := range e.notes {
			res.Notes = append(res.Notes, n)
		}
		sort.Strings(res.Notes)
		for n := range e.externals {
			res.Externals = append(res.Externals, n)
		}
		for n := range e.trusted {
			res.Externals = append(res.Externals, "trusted contract of "+n+" (body not verified)")
		}
		sort.Strings(res.Externals)
	}()
	if fn.Blocks == nil {
		res.Errors = append(res.Errors, "no body")
		return res
	}
	fr, err := e.newFrame(fn, con)
	if err != nil {
		res.Errors = append(res.Errors, err.Error())
		return res
	}
	fr.top = true
	st := newState()
	env := &SpecEnv{e: e, st: st, vars: map[string]Val{}, old: map[string]Val{}}
	ienv := &SpecEnv{e: e, st: st, vars: map[string]Val{}, old: map[string]Val{}}
	fr.env = env
	for _, prm := range fn.Params {
		v := e.freshVal(st, "p_"+prm.Name(), prm.Type(), "param:"+prm.Name(), True)
		fr.vals[prm] = v
		env.vars[prm.Name()] = v
		switch v.K {
		case vSlice, vMap:
			env.old[prm.Name()] = termVal(e.toTerm(st, v))
		default:
			env.old[prm.Name()] = v
		}
	}
	needWorld := p.Pkg.Types.Name() == "main"
	if con != nil && len(con.EnsuresExit) > 0 {
		needWorld = true
	}
	if needWorld {
		e.initWorld(st)
		for _, w := range worldVars {
			env.old[w.name] = st.cell[e.world[w.name]]
		}
	}
	if len(fn.FreeVars) > 0 {
		res.Errors = append(res.Errors, "closures are verified inline, not standalone")
		return res
	}
	ifaceNames := map[string]*ssa.Parameter{}
	// interface-level contract
	icon, ikey := p.ifaceContractFor(fn)
	if icon != nil && len(fn.Params) > 0 {
		recv := fn.Params[0]
		self := e.makeInterface(st, fr.vals[recv], recv.Type(), p.Pkg.Types.Scope().Lookup("JsonNode").Type())
		env.vars["self"] = termVal(self)
		env.old["self"] = termVal(self)
		ienv.vars["self"] = termVal(self)
		ienv.old["self"] = termVal(self)
		names := p.ifaceMethodParamNames("JsonNode", fn.Name())
		for i, n := range names {
			if i+1 < len(fn.Params) {
				ienv.vars[n] = env.vars[fn.Params[i+1].Name()]
				ienv.old[n] = env.old[fn.Params[i+1].Name()]
				ifaceNames[n] = fn.Params[i+1]
			}
		}
		if len(e.prov.allowed) == 0 {
			for _, m := range append(append([]string{}, icon.Modifies...), icon.Consumes...) {
				if m == "self" {
					e.prov.allowed[recv.Name()] = true
				}
				for i, n := range names {
					if n == m && i+1 < len(fn.Params) {
						e.prov.allowed[fn.Params[i+1].Name()] = true
					}
				}
			}
		}
		if con == nil {
			e.contract = &Contract{Key: key, Carries: icon.Carries, Loops: map[string]*LoopSpec{}}
		}
	}
	type cl struct {
		c    Clause
		from string
		idx  int
	}
	var reqs, enss []cl
	if icon != nil {
		for i, c := range icon.Requires {
			reqs = append(reqs, cl{c, ikey, i})
		}
		if !safetyOnly {
			for i, c := range icon.Ensures {
				if !clauseFor(c, currentProperty) {
					continue
				}
				if con != nil {
					if reason, skip := con.AssumeIface[i]; skip {
						e.trusted[fmt.Sprintf("%s clause %d for %s: not proved here (%s); bounded check only", ikey, i, key, reason)] = true
						continue
					}
				}
				enss = append(enss, cl{c, ikey, i})
			}
		}
	}
	if con != nil {
		for i, c := range con.Requires {
			reqs = append(reqs, cl{c, key, i})
		}
		if !safetyOnly {
			for i, c := range con.Ensures {
				if !clauseFor(c, currentProperty) {
					continue
				}
				enss = append(enss, cl{c, key, i})
			}
		}
	}
	for i, r := range reqs {
		cenv := env
		if r.from != key {
			cenv = ienv
		}
		g, err := e.evalClause(r.c.Text, cenv)
		if err != nil {
			res.Errors = append(res.Errors, fmt.Sprintf("requires %d (%s): %v", i, r.from, err))
			continue
		}
		e.assume(g)
	}
	// vacuity guard: the precondition must be satisfiable
	if len(reqs) > 0 {
		o := e.oblige("cover", key+"#cover-requires", fn.Pos(), True, False, "precondition is satisfiable")
		o.ExpectSat = true
	}
	fr.run(st, True)
	e.curBlock = -1
	// postconditions at each return
	for ri, rp := range fr.rets {
		e.curBlock = rp.block
		// lenient: a conclusion that names a local not yet in scope at this return (an early error
		// return) requires the clause's premises to be false there
		renv := &SpecEnv{e: e, st: rp.st, vars: map[string]Val{}, old: env.old, lenient: true}
		rienv := &SpecEnv{e: e, st: rp.st, vars: map[string]Val{}, old: ienv.old}
		// postconditions may mention locals that are in scope at the return (ghost-free specs over
		// intermediate values such as the split input lines)
		rst := rp.st
		rblock := fn.Blocks[rp.block]
		renv.lookup = func(name string) (Val, bool) {
			return fr.lookupNameAt(name, rst, rblock)
		}
		renv.knownName = func(name string) bool {
			_, ok := fr.names[name]
			return ok
		}
		for _, prm := range fn.Params {
			renv.vars[prm.Name()] = fr.vals[prm]
		}
		if v, ok := env.vars["self"]; ok {
			renv.vars["self"] = v
			rienv.vars["self"] = v
		}
		for n, prm := range ifaceNames {
			rienv.vars[n] = fr.vals[prm]
		}
		for i, v := range rp.vals {
			for _, ev := range []*SpecEnv{renv, rienv} {
				ev.vars[fmt.Sprintf("ret%d", i)] = v
				if i == 0 {
					ev.vars["ret"] = v
				}
			}
			if nm := fn.Signature.Results().At(i).Name(); nm != "" && nm != "_" {
				renv.vars[nm] = v
			}
		}
		// O2: results declared fresh must be built from storage allocated in this activation
		for _, fc := range []*Contract{icon, con} {
			if fc == nil {
				continue
			}
			for _, f := range fc.Fresh {
				if f != "ret0" && f != "ret" {
					continue
				}
				if len(rp.vals) == 0 {
					continue
				}
				v := rp.vals[0]
				own := "fresh"
				if (v.K == vSlice || v.K == vMap) && v.R != nil {
					own = v.R.Label
				}
				bad := ""
				for _, lab := range strings.Split(own, "|") {
					pl := plainLabel(lab)
					if strings.HasPrefix(pl, "param:") || pl == "global" {
						bad = lab
					}
				}
				goal := True
				if bad != "" {
					goal = False
				}
				e.oblige("fresh", fmt.Sprintf("%s#fresh(ret0)@%s", key, e.posStr(rp.pos)), rp.pos, rp.pc, goal,
					"the result's own storage is allocated in this activation (declared fresh); label: "+own)
				// O1': a slice extended into a caller's spare capacity (append(param, x)) may be read or
				// passed on, but must not be stored in the result: a later sibling append overwrites it
				deep := joinLabel(labelOf(v), ownOf(v))
				esc := True
				for _, lab := range strings.Split(deep, "|") {
					if strings.HasPrefix(lab, "spare:") {
						esc = False
					}
				}
				e.oblige("fresh", fmt.Sprintf("%s#nospare(ret0)@%s", key, e.posStr(rp.pos)), rp.pos, rp.pc, esc,
					"nothing stored in the result aliases spare capacity of a caller's slice (append(path, k) must be cloned before it is kept); reachable labels: "+deep)
			}
		}
		// noretain p: the storage of parameter p (or a spare-capacity extension of it) is not reachable from the result
		for _, fc := range []*Contract{icon, con} {
			if fc == nil || len(rp.vals) == 0 {
				continue
			}
			for _, pn := range fc.NoRetain {
				if fc == icon {
					// the interface contract names the interface method's parameter
					if prm, ok := ifaceNames[pn]; ok {
						pn = prm.Name()
					}
				}
				v := rp.vals[0]
				deep := joinLabel(labelOf(v), ownOf(v))
				goal := True
				for _, lab := range strings.Split(deep, "|") {
					if plainLabel(lab) == "param:"+pn {
						goal = False
					}
				}
				if goal == False && fc != icon {
					e.retainsSeen[pn] = true
					// ownership transfer instead: every call site must hand over storage it owns (checked there)
					continue
				}
				e.oblige("fresh", fmt.Sprintf("%s#noretain(%s)@%s", key, pn, e.posStr(rp.pos)), rp.pos, rp.pc, goal,
					"the result does not keep the storage of parameter "+pn+" (it must be cloned before it is stored); reachable labels: "+deep)
			}
		}
		for _, en := range enss {
			i := en.idx
			cenv := renv
			if en.from != key {
				cenv = rienv
			}
			g, err := e.evalClause(en.c.Text, cenv)
			if err != nil {
				res.Errors = append(res.Errors, fmt.Sprintf("ensures %d (%s): %v", i, en.from, err))
				continue
			}
			e.oblige("ensures", fmt.Sprintf("%s#ensures(%s/%d)@%s", key, shortKey(en.from, key), i, e.posStr(rp.pos)), rp.pos, rp.pc, g, en.c.Text)
			_ = ri
		}
	}
	// a function declared noreturn must not reach a return
	if con != nil && con.NoReturn {
		for _, rp := range fr.rets {
			e.curBlock = rp.block
			e.oblige("ensures", fmt.Sprintf("%s#noreturn@%s", key, e.posStr(rp.pos)), rp.pos, rp.pc, False, "declared noreturn: this return must be unreachable")
		}
	}
	// postconditions at every process exit (os.Exit) reached from this function
	if con != nil {
		for xi, ep := range e.exits {
			e.curBlock = ep.block
			xenv := &SpecEnv{e: e, st: ep.st, vars: map[string]Val{}, old: env.old, lenient: true}
			for _, prm := range fn.Params {
				xenv.vars[prm.Name()] = fr.vals[prm]
			}
			xenv.vars["exit"] = termVal(ep.code)
			xenv.knownName = func(name string) bool {
				_, ok := fr.names[name]
				return ok
			}
			xst := ep.st
			var xblock *ssa.BasicBlock
			if ep.block >= 0 && ep.block < len(fn.Blocks) {
				xblock = fn.Blocks[ep.block]
			}
			xenv.lookup = func(name string) (Val, bool) {
				if xblock == nil {
					return Val{}, false
				}
				return fr.lookupNameAt(name, xst, xblock)
			}
			for ci, c := range con.EnsuresExit {
				if !clauseFor(c, currentProperty) {
					continue
				}
				g, err := e.evalClause(c.Text, xenv)
				if err != nil {
					res.Errors = append(res.Errors, fmt.Sprintf("ensures_exit %d: %v", ci, err))
					continue
				}
				e.oblige("ensures", fmt.Sprintf("%s#ensures_exit(own/%d)@%s~x%d", key, ci, e.posStr(ep.pos), xi), ep.pos, ep.pc, g, c.Text)
			}
		}
	}
	e.curBlock = -1
	// vacuity guard: some return point must be reachable under the assumptions made
	if len(fr.rets) > 0 || len(e.exits) > 0 {
		var pcs []Term
		for _, rp := range fr.rets {
			pcs = append(pcs, rp.pc)
		}
		for _, ep := range e.exits {
			pcs = append(pcs, ep.pc)
		}
		o := e.oblige("cover", key+"#cover-return", fn.Pos(), Or(pcs...), False, "some return point is reachable (assumptions are consistent)")
		o.ExpectSat = true
	}
	if len(fr.rets) == 0 && len(enss) > 0 && len(e.exits) == 0 {
		res.Errors = append(res.Errors, "no return point reached")
	}
	return res
}

func shortKey(from, key string) string {
	if from == key {
		return "own"
	}
	return from
}

// stale loop keys: contract names a loop that does not exist in the function or its closures.
func (p *Program) staleLoops(key string) []string {
	con := p.Contracts[key]
	fn := p.Funcs[key]
	if con == nil || fn == nil {
		return nil
	}
	have := map[string]bool{}
	var collect func(f *ssa.Function)
	collect = func(f *ssa.Function) {
		lis, err := p.loopsOf(f)
		if err == nil {
			for _, li := range lis {
				have[li.Key] = true
			}
		}
		for _, af := range f.AnonFuncs {
			collect(af)
		}
	}
	collect(fn)
	var out []string
	for k := range con.Loops {
		if !have[k] {
			out = append(out, k)
		}
	}
	sort.Strings(out)
	return out
}

var _ = strings.Contains

// retains reports whether the body of key may keep the storage of parameter pn in its result
// (decided on provenance labels by a solver-free pass over the function; optimistic for a call that
// is already being analysed, i.e. direct recursion).
func (p *Program) retains(key, pn string) bool {
	k := key + "/" + pn
	if v, ok := p.retainsCache[k]; ok {
		return v
	}
	if p.retainsCache == nil {
		p.retainsCache = map[string]bool{}
	}
	p.retainsCache[k] = false
	r := p.verifyFunc(key, false)
	v := r.exec != nil && r.exec.retainsSeen[pn]
	p.retainsCache[k] = v
	return v
}
