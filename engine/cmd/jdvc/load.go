package main

import (
	"bytes"
	"fmt"
	"go/ast"
	"go/printer"
	"go/token"
	"go/types"
	"os"
	"path/filepath"
	"regexp"
	"sort"
	"strings"

	"golang.org/x/tools/go/packages"
	"golang.org/x/tools/go/ssa"
	"golang.org/x/tools/go/ssa/ssautil"
)

// Program is one loaded Go package with SSA and contracts.
type Program struct {
	retainsCache map[string]bool
	Dir       string
	Fset      *token.FileSet
	Pkg       *packages.Package
	SSA       *ssa.Package
	Prog      *ssa.Program
	U         *Universe
	Contracts map[string]*Contract // key: function key, e.g. "(jsonList).patch", "patchAll", "JsonNode.patch"
	SpecFuncs map[string]*ssa.Function
	Funcs     map[string]*ssa.Function // all functions/methods of the package by key
	specRec   map[string]bool          // recursive spec functions
	ifaceImpl map[string][]string      // iface method "JsonNode.patch" -> impl keys
	Stale     []string
	Sweep     []string          // properties for which every function of the package is under check (safety sweep)
	NoSweep   map[string]string // function key -> reason it is excluded from sweeps
}

// Contract is one //@ contract block.
type Contract struct {
	Key       string
	Requires  []Clause
	Ensures   []Clause
	Universe  map[string]string // parameter -> generator expression for the bounded run
	Zip       []string          // parameters drawn with one common index (universes of equal length): tuples instead of a cross product
	AssumeIface map[int]string // interface-level ensures clauses this implementation does not prove (index -> reason)
	EnsuresExit []Clause // must hold at every os.Exit reached from this function (ghost: exit, stdout, fileWritten, ...)
	EnsuresB  []Clause // evaluated natively on bounded universes only (never proved, never assumed)
	Loops     map[string]*LoopSpec
	Decreases string
	Modifies  []string
	Consumes  []string
	Fresh     []string
	NoRetain  []string // parameters whose own storage (or a spare-capacity extension of it) must not be reachable from the result
	Carries   []string
	Uses      []string // lemmas
	Pure      bool
	Trusted   bool // body not verified (assumed contract)
	Line      int
	File      string
	Opaque    bool
	Axiom     bool // recursive opaque spec function: also emit the quantified definitional axiom
	NeedsCLI  bool  // the bounded run executes the built binaries
	CapQuick, CapThorough int64 // bounded-run tuple caps (0 = default)
	NoReturn  bool // every path ends the process (os.Exit); callers stop at the call
	Bounded   bool // no proof attempted: the contract is only evaluated on the real code over a bounded universe
	Lemma     bool
}

type Clause struct {
	Text string
	Tag  string // property ids or label
	Line int
}

type LoopSpec struct {
	Key        string
	Invariants []Clause
	Decreases  string
	Ghost      []string
}

var reDirective = regexp.MustCompile(`^\s*//\s?@\s?(.*)$`)

func parseContracts(path string, into map[string]*Contract) error {
	return parseContractsP(path, into, nil)
}

func parseContractsP(path string, into map[string]*Contract, p *Program) error {
	data, err := os.ReadFile(path)
	if err != nil {
		return err
	}
	var cur *Contract
	for ln, line := range strings.Split(string(data), "\n") {
		m := reDirective.FindStringSubmatch(line)
		if m == nil {
			continue
		}
		txt := strings.TrimSpace(m[1])
		if txt == "" {
			continue
		}
		word, rest := splitWord(txt)
		// optional property tag: ensures [C05 C07] expr
		tag := ""
		if (word == "ensures" || word == "ensures_bounded" || word == "ensures_exit" || word == "requires") && strings.HasPrefix(rest, "[") {
			if j := strings.Index(rest, "]"); j > 0 {
				tag = rest[1:j]
				rest = strings.TrimSpace(rest[j+1:])
			}
		}
		switch word {
		case "sweep":
			if p != nil {
				p.Sweep = append(p.Sweep, strings.Fields(rest)...)
			}
			continue
		case "nosweep":
			if p != nil {
				k, reason := splitWord(rest)
				if p.NoSweep == nil {
					p.NoSweep = map[string]string{}
				}
				p.NoSweep[k] = reason
			}
			continue
		case "contract":
			cur = &Contract{Key: rest, Loops: map[string]*LoopSpec{}, Line: ln + 1, File: path}
			if _, dup := into[rest]; dup {
				return fmt.Errorf("%s:%d: duplicate contract %s", path, ln+1, rest)
			}
			into[rest] = cur
		case "requires":
			if cur == nil {
				return fmt.Errorf("%s:%d: directive outside contract", path, ln+1)
			}
			cur.Requires = append(cur.Requires, Clause{Text: rest, Line: ln + 1})
		case "ensures":
			cur.Ensures = append(cur.Ensures, Clause{Text: rest, Line: ln + 1, Tag: tag})
		case "universe":
			pn, ex := splitWord(rest)
			if cur.Universe == nil {
				cur.Universe = map[string]string{}
			}
			cur.Universe[pn] = ex
		case "zip":
			cur.Zip = append(cur.Zip, strings.Fields(rest)...)
		case "assume_iface":
			// assume_iface <clause index> <reason>: this implementation leaves the interface clause to the bounded check
			w2, r2 := splitWord(rest)
			var idx int
			if _, err := fmt.Sscanf(w2, "%d", &idx); err != nil {
				return fmt.Errorf("%s:%d: assume_iface needs a clause index", path, ln+1)
			}
			if cur.AssumeIface == nil {
				cur.AssumeIface = map[int]string{}
			}
			cur.AssumeIface[idx] = r2
		case "ensures_exit":
			cur.EnsuresExit = append(cur.EnsuresExit, Clause{Text: rest, Line: ln + 1, Tag: tag})
		case "ensures_bounded":
			cur.EnsuresB = append(cur.EnsuresB, Clause{Text: rest, Line: ln + 1, Tag: tag})
		case "decreases":
			cur.Decreases = rest
		case "modifies":
			cur.Modifies = append(cur.Modifies, strings.Fields(rest)...)
		case "consumes":
			cur.Consumes = append(cur.Consumes, strings.Fields(rest)...)
		case "fresh":
			cur.Fresh = append(cur.Fresh, strings.Fields(rest)...)
		case "noretain":
			cur.NoRetain = append(cur.NoRetain, strings.Fields(rest)...)
		case "carries":
			cur.Carries = append(cur.Carries, strings.Fields(rest)...)
		case "uses":
			cur.Uses = append(cur.Uses, strings.Fields(rest)...)
		case "pure":
			cur.Pure = true
		case "trusted":
			cur.Trusted = true
		case "opaque":
			cur.Opaque = true
		case "axiom":
			cur.Axiom = true
		case "needs_cli":
			cur.NeedsCLI = true
		case "cap":
			fmt.Sscanf(rest, "%d %d", &cur.CapQuick, &cur.CapThorough)
		case "noreturn":
			cur.NoReturn = true
		case "bounded":
			cur.Bounded = true
		case "lemma":
			cur.Lemma = true
		case "loop":
			// loop "key" invariant|decreases expr
			if !strings.HasPrefix(rest, `"`) {
				return fmt.Errorf("%s:%d: loop key must be quoted", path, ln+1)
			}
			end := strings.Index(rest[1:], `"`)
			if end < 0 {
				return fmt.Errorf("%s:%d: unterminated loop key", path, ln+1)
			}
			key := rest[1 : 1+end]
			after := strings.TrimSpace(rest[2+end:])
			w2, r2 := splitWord(after)
			ls := cur.Loops[key]
			if ls == nil {
				ls = &LoopSpec{Key: key}
				cur.Loops[key] = ls
			}
			switch w2 {
			case "invariant":
				ls.Invariants = append(ls.Invariants, Clause{Text: r2, Line: ln + 1})
			case "decreases":
				ls.Decreases = r2
			default:
				return fmt.Errorf("%s:%d: unknown loop directive %q", path, ln+1, w2)
			}
		default:
			return fmt.Errorf("%s:%d: unknown directive %q", path, ln+1, word)
		}
	}
	return nil
}

func splitWord(s string) (string, string) {
	i := strings.IndexAny(s, " \t")
	if i < 0 {
		return s, ""
	}
	return s[:i], strings.TrimSpace(s[i:])
}

// funcKey returns the contract key of an SSA function.
func funcKey(f *ssa.Function) string {
	if f.Parent() != nil {
		return funcKey(f.Parent()) + "$" + strings.TrimPrefix(f.Name(), f.Parent().Name()+"$")
	}
	name := f.Name()
	if i := strings.Index(name, "["); i > 0 {
		// generic instance: getOption[github.com/x/y.T] -> getOption[T]
		inner := name[i+1 : len(name)-1]
		var parts []string
		for _, a := range strings.Split(inner, ",") {
			if j := strings.LastIndex(a, "."); j >= 0 {
				a = a[j+1:]
			}
			parts = append(parts, a)
		}
		name = name[:i] + "[" + strings.Join(parts, ",") + "]"
	}
	if recv := f.Signature.Recv(); recv != nil {
		t := recv.Type()
		ptr := ""
		if p, ok := t.(*types.Pointer); ok {
			t = p.Elem()
			ptr = "*"
		}
		tn := t.String()
		if n, ok := t.(*types.Named); ok {
			tn = n.Obj().Name()
		}
		return "(" + ptr + tn + ")." + name
	}
	return name
}

// loadOverlay maps absolute file names to replacement contents (mutation testing / self-test).
var loadOverlay map[string][]byte

func loadProgram(dir string, tags string) (*Program, error) {
	cfg := &packages.Config{Mode: packages.LoadAllSyntax, Dir: dir, BuildFlags: []string{"-tags=" + tags}, Overlay: loadOverlay}
	cfg.Env = append(os.Environ(), "GOFLAGS=-mod=mod", "GOPROXY=off")
	pkgs, err := packages.Load(cfg, ".")
	if err != nil {
		return nil, err
	}
	if len(pkgs) != 1 {
		return nil, fmt.Errorf("expected one package in %s, got %d", dir, len(pkgs))
	}
	if len(pkgs[0].Errors) > 0 {
		return nil, fmt.Errorf("package errors in %s: %v", dir, pkgs[0].Errors)
	}
	prog, spkgs := ssautil.AllPackages(pkgs, ssa.GlobalDebug|ssa.InstantiateGenerics)
	prog.Build()
	p := &Program{Dir: dir, Fset: pkgs[0].Fset, Pkg: pkgs[0], SSA: spkgs[0], Prog: prog, U: NewUniverse(),
		Contracts: map[string]*Contract{}, SpecFuncs: map[string]*ssa.Function{}, Funcs: map[string]*ssa.Function{},
		specRec: map[string]bool{}, ifaceImpl: map[string][]string{}}
	// collect functions
	for _, m := range p.SSA.Members {
		switch m := m.(type) {
		case *ssa.Function:
			p.addFunc(m)
		case *ssa.Type:
			for _, t := range []types.Type{m.Type(), types.NewPointer(m.Type())} {
				ms := prog.MethodSets.MethodSet(t)
				for i := 0; i < ms.Len(); i++ {
					f := prog.MethodValue(ms.At(i))
					if f != nil && f.Pkg == p.SSA && f.Synthetic == "" {
						p.addFunc(f)
					}
				}
			}
		}
	}
	// generic instances referenced from package functions
	for changed := true; changed; {
		changed = false
		for _, f := range p.Funcs {
			for _, b := range f.Blocks {
				for _, ins := range b.Instrs {
					if c, ok := ins.(ssa.CallInstruction); ok {
						if sc := c.Common().StaticCallee(); sc != nil && sc.Origin() != nil && sc.Origin().Pkg == p.SSA {
							if _, have := p.Funcs[funcKey(sc)]; !have {
								p.addFunc(sc)
								changed = true
							}
						}
					}
				}
			}
		}
	}
	// contracts: every file named verif_contracts*.go in dir
	matches, _ := filepath.Glob(filepath.Join(dir, "verif_contracts*.go"))
	sort.Strings(matches)
	for _, m := range matches {
		if err := parseContractsP(m, p.Contracts, p); err != nil {
			return nil, err
		}
	}
	// spec functions: functions declared in verif_spec*.go; doc-comment contracts
	for key, f := range p.Funcs {
		if f.Syntax() == nil {
			continue
		}
		file := p.Fset.Position(f.Pos()).Filename
		if strings.HasPrefix(filepath.Base(file), "verif_spec") {
			p.SpecFuncs[key] = f
		}
	}
	specFiles, _ := filepath.Glob(filepath.Join(dir, "verif_spec*.go"))
	for _, sf := range specFiles {
		if err := parseContracts(sf, p.Contracts); err != nil {
			return nil, err
		}
	}
	p.computeSpecRecursion()
	// stale detection
	for key := range p.Contracts {
		if _, ok := p.Funcs[key]; ok {
			continue
		}
		if strings.Contains(key, ".") && !strings.HasPrefix(key, "(") {
			// interface-level or external contract, e.g. JsonNode.patch or ext:fmt.Errorf
			continue
		}
		p.Stale = append(p.Stale, key)
	}
	sort.Strings(p.Stale)
	return p, nil
}

func (p *Program) addFunc(f *ssa.Function) {
	p.Funcs[funcKey(f)] = f
	for _, af := range f.AnonFuncs {
		p.addFunc(af)
	}
}

// computeSpecRecursion marks spec functions that are (mutually) recursive.
func (p *Program) computeSpecRecursion() {
	callees := map[string][]string{}
	for key, f := range p.SpecFuncs {
		seen := map[string]bool{}
		var visit func(fn *ssa.Function)
		visit = func(fn *ssa.Function) {
			for _, b := range fn.Blocks {
				for _, ins := range b.Instrs {
					if c, ok := ins.(ssa.CallInstruction); ok {
						if sc := c.Common().StaticCallee(); sc != nil {
							k := funcKey(sc)
							if _, isSpec := p.SpecFuncs[k]; isSpec && !seen[k] {
								seen[k] = true
								callees[key] = append(callees[key], k)
							}
						}
					}
					if mc, ok := ins.(*ssa.MakeClosure); ok {
						visit(mc.Fn.(*ssa.Function))
					}
				}
			}
		}
		visit(f)
	}
	// reachability: f is recursive if f reaches f
	for key := range p.SpecFuncs {
		seen := map[string]bool{}
		var stack []string
		stack = append(stack, callees[key]...)
		for len(stack) > 0 {
			k := stack[len(stack)-1]
			stack = stack[:len(stack)-1]
			if k == key {
				p.specRec[key] = true
				break
			}
			if seen[k] {
				continue
			}
			seen[k] = true
			stack = append(stack, callees[k]...)
		}
	}
}

// ---------------------------------------------------------------------
// Type -> sort mapping

func (p *Program) sortOf(t types.Type) Sort {
	if s, ok := p.U.byTyp[t.String()]; ok {
		return s
	}
	s := p.sortOf1(t)
	p.U.byTyp[t.String()] = s
	return s
}

func namedName(t types.Type) string {
	if n, ok := t.(*types.Named); ok {
		return n.Obj().Name()
	}
	if a, ok := t.(*types.Alias); ok {
		return a.Obj().Name()
	}
	return ""
}

func (p *Program) sortOf1(t types.Type) Sort {
	switch namedName(t) {
	case "JsonNode":
		return SNode
	case "PathElement":
		return SPE
	case "Option":
		return SOpt
	case "error":
		return SErr
	}
	switch ut := t.Underlying().(type) {
	case *types.Basic:
		switch {
		case ut.Info()&types.IsBoolean != 0:
			return SBool
		case ut.Info()&types.IsInteger != 0:
			return SInt
		case ut.Info()&types.IsFloat != 0:
			return SReal
		case ut.Info()&types.IsString != 0:
			return SString
		case ut.Kind() == types.UntypedNil:
			return "Nil"
		}
	case *types.Interface:
		if ut.NumMethods() == 0 {
			return SAny
		}
		if ut.NumMethods() == 1 && ut.Method(0).Name() == "Error" {
			return SErr
		}
		// jsonNodeInternals, metadataField etc.
		switch namedName(t) {
		case "jsonNodeInternals":
			return SNode
		}
		if n, ok := t.(*types.Named); ok && n.Obj().Pkg() != nil {
			if s, ok := p.closedIface(n, ut); ok {
				return s
			}
		}
		return SAny
	case *types.Slice:
		return p.U.SliceOf(p.sortOf(ut.Elem()))
	case *types.Array:
		if b, ok := ut.Elem().Underlying().(*types.Basic); ok && b.Kind() == types.Uint8 && ut.Len() == 8 {
			return SHash
		}
		return p.U.SliceOf(p.sortOf(ut.Elem()))
	case *types.Map:
		if ki, ok := ut.Key().Underlying().(*types.Interface); ok && ki.NumMethods() == 0 && p.sortOf(ut.Elem()) == SAny {
			return "MapYaml"
		}
		return p.U.MapOf(p.sortOf(ut.Key()), p.sortOf(ut.Elem()))
	case *types.Struct:
		name := namedName(t)
		if name == "" {
			name = "anon" + sanitize(t.String())
		}
		if n, ok := t.(*types.Named); ok && n.Obj().Pkg() != nil && n.Obj().Pkg() != p.Pkg.Types {
			// foreign struct types (bytes.Buffer, strings.Builder, ...) are opaque
			return p.U.Opaque("Ext_" + sanitize(n.Obj().Pkg().Name()+"_"+name))
		}
		return p.U.StructOf(name, ut, p.sortOf)
	case *types.Pointer:
		return p.U.PtrOf(p.sortOf(ut.Elem()))
	case *types.Signature:
		return "Func"
	case *types.Tuple:
		return "Tuple"
	}
	return Sort("Unsupported_" + sanitize(t.String()))
}

// ---------------------------------------------------------------------
// Loops: map SSA loop heads to source loop statements.

type LoopInfo struct {
	Head   *ssa.BasicBlock
	Key    string // `for cond` / `range expr` with ordinal suffix on duplicates
	Body   map[*ssa.BasicBlock]bool
	Latch  []*ssa.BasicBlock // sources of back edges
	Stmt   ast.Stmt
	Pos    token.Pos
	Range  bool
	Spec   *LoopSpec
	Parent *LoopInfo
}

func exprString(fset *token.FileSet, e ast.Node) string {
	var b bytes.Buffer
	printer.Fprint(&b, fset, e)
	s := b.String()
	s = strings.Join(strings.Fields(s), " ")
	return s
}

func (p *Program) loopsOf(f *ssa.Function) ([]*LoopInfo, error) {
	// SSA loop heads
	var heads []*ssa.BasicBlock
	latches := map[*ssa.BasicBlock][]*ssa.BasicBlock{}
	for _, b := range f.Blocks {
		for _, s := range b.Succs {
			if s.Dominates(b) {
				if _, ok := latches[s]; !ok {
					heads = append(heads, s)
				}
				latches[s] = append(latches[s], b)
			}
		}
	}
	sort.Slice(heads, func(i, j int) bool { return heads[i].Index < heads[j].Index })
	// AST loops in source order
	var stmts []ast.Stmt
	var body ast.Node
	switch syn := f.Syntax().(type) {
	case *ast.FuncDecl:
		body = syn.Body
	case *ast.FuncLit:
		body = syn.Body
	}
	if body != nil {
		ast.Inspect(body, func(n ast.Node) bool {
			switch n := n.(type) {
			case *ast.FuncLit:
				return false
			case *ast.ForStmt:
				stmts = append(stmts, n)
			case *ast.RangeStmt:
				stmts = append(stmts, n)
			}
			return true
		})
	}
	// Sort SSA heads by source position of the loop (blocks are created in source order,
	// but be defensive: match by kind in order).
	if len(stmts) != len(heads) {
		return nil, fmt.Errorf("%s: %d source loops vs %d SSA loops", funcKey(f), len(stmts), len(heads))
	}
	var out []*LoopInfo
	seen := map[string]int{}
	for i, h := range heads {
		li := &LoopInfo{Head: h, Stmt: stmts[i], Latch: latches[h], Pos: stmts[i].Pos()}
		switch s := stmts[i].(type) {
		case *ast.ForStmt:
			if strings.HasPrefix(h.Comment, "range") {
				return nil, fmt.Errorf("%s: loop %d kind mismatch (%s vs for)", funcKey(f), i, h.Comment)
			}
			if s.Cond != nil {
				li.Key = "for " + exprString(p.Fset, s.Cond)
			} else {
				li.Key = "for"
			}
		case *ast.RangeStmt:
			if !strings.HasPrefix(h.Comment, "range") {
				return nil, fmt.Errorf("%s: loop %d kind mismatch (%s vs range)", funcKey(f), i, h.Comment)
			}
			li.Range = true
			li.Key = "range " + exprString(p.Fset, s.X)
		}
		seen[li.Key]++
		if seen[li.Key] > 1 {
			li.Key = fmt.Sprintf("%s #%d", li.Key, seen[li.Key])
		}
		// body: blocks that reach a latch without passing through head
		li.Body = map[*ssa.BasicBlock]bool{h: true}
		var stack []*ssa.BasicBlock
		for _, l := range li.Latch {
			stack = append(stack, l)
		}
		for len(stack) > 0 {
			b := stack[len(stack)-1]
			stack = stack[:len(stack)-1]
			if li.Body[b] {
				continue
			}
			li.Body[b] = true
			stack = append(stack, b.Preds...)
		}
		out = append(out, li)
	}
	return out, nil
}

// clauseFor reports whether a clause belongs to the property being checked ("" = all).
func clauseFor(c Clause, prop string) bool {
	if prop == "" || c.Tag == "" {
		return true
	}
	for _, t := range strings.Fields(c.Tag) {
		if t == prop {
			return true
		}
	}
	return false
}

// currentProperty restricts obligations and bounded clauses to those tagged for it.
var currentProperty string

// importPath resolves a package identifier used in the package's files (alias or default name).
func (p *Program) importPath(name string) string {
	for _, f := range p.Pkg.Syntax {
		for _, im := range f.Imports {
			path := strings.Trim(im.Path.Value, "\"")
			if im.Name != nil {
				if im.Name.Name == name {
					return path
				}
				continue
			}
			if ip := p.Pkg.Imports[path]; ip != nil && ip.Name == name {
				return path
			}
		}
	}
	return ""
}

// closedIface builds one algebraic datatype for a package-level interface: a nil constructor plus
// one constructor per named type of the same package that implements it (closed world).
func (p *Program) closedIface(n *types.Named, it *types.Interface) (Sort, bool) {
	pkg := n.Obj().Pkg()
	name := Sort("If_" + sanitize(pkg.Name()+"_"+n.Obj().Name()))
	if _, ok := p.U.dts[name]; ok {
		return name, true
	}
	var impls []*types.Named
	scope := pkg.Scope()
	for _, nm := range scope.Names() {
		tn, ok := scope.Lookup(nm).(*types.TypeName)
		if !ok {
			continue
		}
		nt, ok := tn.Type().(*types.Named)
		if !ok || nt.TypeParams().Len() > 0 {
			continue
		}
		if _, isIface := nt.Underlying().(*types.Interface); isIface {
			continue
		}
		if types.Implements(nt, it) {
			impls = append(impls, nt)
		}
	}
	if len(impls) == 0 || len(impls) > 12 {
		return "", false
	}
	dt := &DT{Name: name, Kind: "iface"}
	p.U.dts[name] = dt
	ctors := []string{fmt.Sprintf("(nil_%s)", name)}
	for _, im := range impls {
		ps := p.sortOf(im)
		if ps == name || strings.HasPrefix(string(ps), "Unsupported_") {
			delete(p.U.dts, name)
			return "", false
		}
		cn := fmt.Sprintf("mk_%s_%s", name, im.Obj().Name())
		sel := fmt.Sprintf("get_%s_%s", name, im.Obj().Name())
		ctors = append(ctors, fmt.Sprintf("(%s (%s %s))", cn, sel, ps))
		dt.Fields = append(dt.Fields, DTField{Name: im.Obj().Name(), Sel: sel, Sort: ps})
	}
	dt.Decl = fmt.Sprintf("(declare-datatypes ((%s 0)) ((%s)))", name, strings.Join(ctors, " "))
	p.U.order = append(p.U.order, name)
	return name, true
}
