package main

import (
	"encoding/json"
	"path/filepath"
	"flag"
	"fmt"
	"os"
	"sort"
	"strings"
	"time"
)

func main() {
	if len(os.Args) < 2 {
		fmt.Fprintln(os.Stderr, "usage: jdvc <vc|check|ssa|list> ...")
		os.Exit(3)
	}
	switch os.Args[1] {
	case "vc":
		cmdVC(os.Args[2:])
	case "ssa":
		cmdSSA(os.Args[2:])
	case "check":
		cmdCheck(os.Args[2:])
	case "rac":
		cmdRAC(os.Args[2:])
	case "replay":
		cmdReplay(os.Args[2:])
	case "baseline":
		cmdBaseline(os.Args[2:])
	default:
		fmt.Fprintln(os.Stderr, "unknown command", os.Args[1])
		os.Exit(3)
	}
}

func cmdSSA(args []string) {
	fs := flag.NewFlagSet("ssa", flag.ExitOnError)
	dir := fs.String("dir", "/repo/v2", "package directory")
	fs.Parse(args)
	p, err := loadProgram(*dir, "verif")
	if err != nil {
		fmt.Fprintln(os.Stderr, err)
		os.Exit(3)
	}
	for _, k := range fs.Args() {
		f := p.Funcs[k]
		if f == nil {
			fmt.Println("no function", k)
			continue
		}
		f.WriteTo(os.Stdout)
		for _, af := range f.AnonFuncs {
			af.WriteTo(os.Stdout)
		}
	}
}

// cmdVC: developer command: generate and discharge obligations for named functions.
func cmdVC(args []string) {
	fs := flag.NewFlagSet("vc", flag.ExitOnError)
	dir := fs.String("dir", "/repo/v2", "package directory")
	timeout := fs.Int("timeout", 10, "solver timeout (s)")
	work := fs.String("work", "/verif/work/vc", "work dir")
	verbose := fs.Bool("v", false, "verbose")
	safety := fs.Bool("safety", false, "safety obligations only")
	all := fs.Bool("all", false, "all functions with a contract")
	sweep := fs.Bool("sweep", false, "all functions of the package (safety sweep)")
	only := fs.String("only", "", "only obligations whose name contains this substring")
	sed := fs.String("sed", "", "mutation: file:::old:::new (replace first occurrence in file, in memory)")
	fs.Parse(args)
	if *sed != "" {
		parts := strings.SplitN(*sed, ":::", 3)
		data, err := os.ReadFile(parts[0])
		if err != nil {
			panic(err)
		}
		if !strings.Contains(string(data), parts[1]) {
			fmt.Fprintln(os.Stderr, "sed: pattern not found")
			os.Exit(3)
		}
		loadOverlay = map[string][]byte{parts[0]: []byte(strings.Replace(string(data), parts[1], parts[2], 1))}
	}
	t0 := time.Now()
	p, err := loadProgram(*dir, "verif")
	if err != nil {
		fmt.Fprintln(os.Stderr, err)
		os.Exit(3)
	}
	fmt.Fprintf(os.Stderr, "loaded in %.1fs; %d functions, %d contracts, %d spec functions; stale=%v\n",
		time.Since(t0).Seconds(), len(p.Funcs), len(p.Contracts), len(p.SpecFuncs), p.Stale)
	keys := fs.Args()
	if *sweep {
		for k, f := range p.Funcs {
			if _, isSpec := p.SpecFuncs[k]; isSpec || f.Blocks == nil || f.Parent() != nil {
				continue
			}
			file := p.Fset.Position(f.Pos()).Filename
			if strings.HasPrefix(filepath.Base(file), "verif_") || strings.HasSuffix(file, "_test.go") {
				continue
			}
			if c := p.Contracts[k]; c != nil && (c.Trusted || c.Bounded) {
				continue
			}
			keys = append(keys, k)
		}
		sort.Strings(keys)
	}
	if *all {
		for k, c := range p.Contracts {
			if _, ok := p.Funcs[k]; ok && !c.Trusted && !c.Bounded {
				if _, isSpec := p.SpecFuncs[k]; !isSpec {
					keys = append(keys, k)
				}
			}
		}
		// implementations of interface-level contracts
		for k, fn := range p.Funcs {
			if ic, _ := p.ifaceContractFor(fn); ic != nil {
				if c := p.Contracts[k]; c == nil {
					keys = append(keys, k)
				}
			}
		}
		sort.Strings(keys)
	}
	var results []*FuncResult
	for _, k := range keys {
		r := p.verifyFunc(k, *safety)
		if *only != "" {
			var keep []*Obligation
			for _, o := range r.Obls {
				if strings.Contains(o.Name, *only) {
					keep = append(keep, o)
				}
			}
			r.Obls = keep
		}
		results = append(results, r)
	}
	discharge(results, *work, *timeout, 16, *verbose)
	bad := 0
	for _, r := range results {
		fmt.Printf("== %s: %d obligations\n", r.Key, len(r.Obls))
		for _, er := range r.Errors {
			fmt.Printf("   ERROR %s\n", er)
		}
		for _, n := range r.Notes {
			fmt.Printf("   note  %s\n", n)
		}
		for _, o := range r.Obls {
			mark := "ok  "
			if !o.Passed() {
				mark = "FAIL"
				bad++
			}
			if !o.Passed() || *verbose {
				fmt.Printf("   %s %-8s %-10s %5.2fs %s  -- %s\n", mark, o.Status, o.Solver, o.TimeS, o.Name, o.Detail)
			}
		}
	}
	fmt.Printf("total %.1fs, failing obligations: %d\n", time.Since(t0).Seconds(), bad)
	_ = strings.Join
}


func cmdRAC(args []string) {
	fs := flag.NewFlagSet("rac", flag.ExitOnError)
	dir := fs.String("dir", "/repo/v2", "package directory")
	tier := fs.Int("tier", 1, "universe tier")
	capN := fs.Int64("cap", 200000, "max cases")
	seed := fs.Int64("seed", 1, "seed")
	sed := fs.String("sed", "", "mutation: file:::old:::new")
	show := fs.Bool("src", false, "print harness source")
	asJSON := fs.Bool("json", false, "write /verif/work/rac_last.json")
	fs.Parse(args)
	if *sed != "" {
		parts := strings.SplitN(*sed, ":::", 3)
		data, _ := os.ReadFile(parts[0])
		loadOverlay = map[string][]byte{parts[0]: []byte(strings.Replace(string(data), parts[1], parts[2], 1))}
	}
	p, err := loadProgram(*dir, "verif")
	if err != nil {
		fmt.Fprintln(os.Stderr, err)
		os.Exit(3)
	}
	for _, k := range fs.Args() {
		if *show {
			src, _, err := p.racSource(k, *tier, *capN, *seed, nil)
			fmt.Println(src, err)
			continue
		}
		r := p.runRAC(k, *tier, *capN, *seed, nil, "/verif/work/rac", 600)
		fmt.Printf("%s: cases=%d pre=%d fails=%d total=%d exhaustive=%v %.1fs err=%s\n", k, r.Cases, r.PreOK, r.Fails, r.Total, r.Exhaustive, r.WallS, r.Error)
		if *asJSON {
			data, _ := json.MarshalIndent(r, "", " ")
			os.WriteFile("/verif/work/rac_last.json", data, 0o644)
		}
		for i, f := range r.Failures {
			if i < 5 {
				fmt.Printf("   FAIL %s  %v\n", f.What, f.Inputs)
			}
		}
	}
}
