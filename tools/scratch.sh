#!/bin/bash
# usage: scratch.sh <file_test.go>  -- runs an in-package test (package jd, tag verif) via overlay
f=$(readlink -f $1)
mkdir -p /verif/work/scratch
echo "{\"Replace\":{\"/repo/v2/zz_scratch_test.go\":\"$f\"}}" > /verif/work/scratch/ov.json
cd /repo/v2 && GOFLAGS=-mod=mod GOPROXY=off TMPDIR=/verif/work/scratch go test -tags verif -overlay /verif/work/scratch/ov.json -vet=off -count=1 -timeout 100s -run TestScratch -v . 2>&1 | grep -v "^=== RUN\|^--- PASS\|^PASS\|^ok"
