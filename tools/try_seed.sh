#!/bin/bash
# usage: try_seed.sh <seed-name> <worktree> <demo-dir-relative> <property> [more properties...]
# 1. validates the seed in its scratch worktree (tests pass with the change; demo fails with, passes without)
# 2. applies it to /repo, runs the named checks, reverts /repo.
set -u
name=$1; wt=$2; demodir=$3; shift 3
export GOFLAGS=-mod=mod GOPROXY=off
S=/verif/seeded/$name
mkdir -p $S
cp $wt/_seed/patch.diff $S/patch.diff
cp $wt/_seed/*_test.go $S/ 2>/dev/null
cp $wt/_seed/notes.md $S/notes.md 2>/dev/null
demo=$(ls $S/*_test.go | head -1)
log=$S/validation.log; : > $log
cd $wt && git checkout -q -- . && git apply $S/patch.diff || { echo "patch does not apply" | tee -a $log; exit 2; }
(cd $wt/v2 && go build ./... 2>&1 | grep -v "web/ui\|syscall/js" ; go test -vet=off -count=1 . 2>&1 | tail -1) >> $log 2>&1
(cd $wt && go test -vet=off -count=1 . ./lib 2>&1 | tail -2) >> $log 2>&1
cp $demo $wt/$demodir/zz_seed_demo_test.go
(cd $wt/$demodir && go test -vet=off -count=1 -run 'Seed|seed|Demo|demo' . 2>&1 | tail -1 | sed 's/^/demo WITH change: /') >> $log 2>&1
git -C $wt checkout -q -- . 
(cd $wt/$demodir && go test -vet=off -count=1 -run 'Seed|seed|Demo|demo' . 2>&1 | tail -1 | sed 's/^/demo WITHOUT change: /') >> $log 2>&1
rm -f $wt/$demodir/zz_seed_demo_test.go
cat $log
# run checks on /repo with the change applied
cd /repo && git status --short | grep -v '^??' && { echo "/repo not clean"; exit 3; }
git -C /repo apply $S/patch.diff || { echo "patch does not apply to /repo"; exit 2; }
for p in "$@"; do
  (cd /verif && timeout 1500 bin/jdvc check --property $p --tier quick > $S/check_$p.out 2>&1; echo "check $p exit=$?" | tee -a $log; grep -c VIOLATION $S/check_$p.out | sed "s/^/  violations: /" | tee -a $log; grep VIOLATION $S/check_$p.out | head -5 | cut -c1-220 | tee -a $log)
done
git -C /repo checkout -- .
git -C /repo status --short | grep -v '^??'
