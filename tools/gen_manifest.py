#!/usr/bin/env python3
"""Regenerates /verif/MANIFEST.json from the table below (kept in one place so that the
manifest stays valid while checks are added)."""
import json, subprocess

PROPS = [json.loads(l)['id'] for l in open('/verif/properties.jsonl')]

TECH = ("contract-based deductive verification: VC generation over go/ssa of the real functions with //@ contracts, "
        "discharged by z3/cvc5; bounded runtime-assertion checking of the same contracts as labelled stand-in")
NOTE = ("Trusted: the VC generator jdvc, the SMT solvers, mathematical integers/reals, value semantics for slices and maps "
        "(policed by modifies/consumes obligations), closed-world interfaces, assumed contracts for external functions and every "
        "'trusted'/'bounded'/'assume_iface' contract listed in evidence.coverage.trusted_base. ")

CLAIMS = {
 "C03": ("other", "Every implementation of the internal patch method (list, object, array dispatch, scalars, void, shared leaf function) and patchAll is verified for all inputs against a reference semantics of a strict list-mode hunk written from the property statement (removed values present at path/index, each context line equals the adjacent element or the boundary, context forwarded through keys and indices, only the addressed position changes). Set/multiset implementations are evaluated on a bounded universe only, hence 'other' rather than 'proof'.",
         "patchAll's fold over several hunks is proved only for safety, error propagation and the empty diff; jsonSet/jsonMultiset patch and Equals are bounded.", "8 C03"),
 "C05": ("other", "The equivalence 'diff empty iff Equals' is a postcondition of the diff interface method: proved for all inputs for scalars/void (shared diff function), objects (loop invariants over both sorted key lists, children by the interface contract) and array dispatch; list, set and multiset diffs match by hash code and are evaluated, with the property-level wrapper verifDiff, on all document pairs of a bounded universe x 8 option sets. Two recorded findings (hash aliasing string/number; Precision ignored by the list LCS) are reported as KNOWN-FINDING.",
         "list/set/multiset diff contracts are 'bounded'; CLI exit status is covered under C14.", "8 C05"),
 "C01": ("other", "Tier A obligations (every patch implementation refines the strict hunk semantics; patchAll; path cloning; scalar and object diff validity) are proved for all inputs; the composition diff-then-patch is stated as the contract of the wrapper verifDiff (a.Diff(b) applied to a copy of a succeeds and Equals b, for the in-memory diff) and evaluated on all document pairs of a bounded universe x option sets in the property's domain.",
         "the inductive composition through the LCS walk is not proved (bounded only).", "8 C01"),
 "C15": ("other", "Frame obligations (no in-place write to storage reachable from a parameter unless listed in modifies/consumes) are generated for every store, map update, copy, delete and in-place external (slices.Reverse, sort) and discharged for every implementation of Equals, Diff/diff, hashCode, raw, Json, Yaml and for Render, RenderPatch, RenderMerge: on any call sequence the inputs are unchanged, which is the history part of the property turned into a per-call frame. Determinism (independence of map iteration order) and 'a diff still patches after being rendered' are evaluated by the wrappers verifPure / verifReadMergeDeterministic on bounded universes.",
         "determinism is bounded only (repeat-and-compare), except Equals whose result is proved equal to a function of its inputs; provenance labels are per root and per struct field.", "8 C15"),
 "C04": ("other", "Equals of every list-mode implementation (string, number incl. Precision, bool, null, void, list, object, array dispatch) is proved, for all inputs, to return exactly specEq, an equivalence written from the property statement independently of hashing (deep structural equality, numbers within eps, arrays read per the first SET/SetKeys/MULTISET option); loop invariants cover the list and the map iteration (finite-set cardinality facts assumed). Set and multiset equality is decided by hash comparison: the interface clause is assumed for those two implementations and evaluated, together with reflexivity and symmetry, on all document pairs of a bounded universe that contains the type-confusable values. The string/number hash aliasing is reported as KNOWN-FINDING.",
         "jsonSet/jsonMultiset Equals are bounded (assume_iface); the hash function itself is not modelled.", "8 C04"),
 "C13": ("other", "Zero-annotation safety sweep: every function of package jd (v2) - readers of jd/patch/merge/JSON/YAML text, Patch, Diff, Render*, Equals, hash codes, helpers; 193 functions - is verified for every index, slice, make, type-assertion, nil-call/dereference, division and explicit-panic obligation, under validity preconditions (no nil interface inside documents/diffs) that the readers are proved to establish for arbitrary text (external decoders assumed not to panic and to return plain native values). Loop termination is proved where a decreases clause is given. The same contracts are evaluated on bounded universes as a sanity run.",
         "dependencies (encoding/json, yaml.v2, jsonpointer, golcs, sort, strings, bytes, fnv) are assumed not to panic; json.Marshal is assumed not to fail on jd values; colour rendering (colorStringMarshal) is trusted; recursion termination is not proved; the CLI part of the property is covered under C14.", "8 C13"),
 "C02": ("other", "Proved for all inputs: the line reader readDiff, NewPath, readMetadata and checkDiffElement never panic on arbitrary text and return only valid diffs (loop invariants over the line automaton, incl. the inlined allow() closure); Render / DiffElement.Render do not modify the diff (frame obligations). The round trip itself (render, read back: identical text, identical effect; colour adds only ANSI codes) is the contract of the wrappers verifDiffText (all diffs produced by Diff over a bounded document universe incl. strings needing escaping) and verifTextCarrier (well-formed hunk sequences built from the public fields, strict followed by merge) and is evaluated on bounded universes.",
         "payload fidelity rests on encoding/json; the flush-discipline invariant of the reader is not yet proved (bounded only); colour rendering is trusted code.", "8 C02"),
 "C06": ("other", "Proved for all inputs: the LCS walk jsonList.diffRest (with its seven closures inlined) stays in bounds given that the common sequence is a subsequence of both hash lists (assumed contract of golcs), returns only valid hunks with fresh paths, and never writes to its inputs. Minimality against an independent DP LCS and 'exactly one before/after line equal to the neighbour or the boundary' are the contracts of the wrappers verifListMinimal / verifContextAdjacent, evaluated on all array pairs over {1,2,3} up to length 3 (4 in thorough) and on the general document universe.",
         "optimality of the common subsequence is a property of the dependency yudai/golcs (bounded only); hunk-shape postconditions of diffRest are not yet proved.", "8 C06"),
 "C07": ("other", "Proved for all inputs: scalar diff emits a hunk only when not Equals (biconditional), object diff emits hunks only for differing keys (loop invariants), validity and freshness of all emitted hunks. Per-hunk realism and leave-one-out non-redundancy are the contract of the wrapper verifHunksReal, evaluated on all document pairs of a bounded universe x 8 option sets.",
         "leave-one-out is a statement about the whole diff and stays bounded.", "8 C07"),
 "C09": ("other", "Proved for all inputs: RenderPatch, writePointer and Path.JsonNode never panic on valid diffs, do not modify the diff they render, and Path.JsonNode returns a fresh valid plain array. Agreement with an independent RFC 6902 evaluator (written from the RFC in the hook file, sharing no code with jd) is the contract of the wrapper verifRenderPatchFaithful, evaluated on all pointer-expressible document pairs of a bounded universe.",
         "the op-sequence shape of RenderPatch is not yet a proved postcondition; JSON encoding and pointer escaping are dependencies.", "8 C09"),
 "C10": ("other", "Proved for all inputs: ReadPatchString, readPatchDiffElement (with setPatchDiffElementContext inlined) and readPointer never panic on arbitrary op sequences, terminate (decreases on the remaining ops) and return valid hunks. 'Never more permissive than the RFC' and the read-back round trip are the contract of the wrapper verifReadPatchFaithful (independent RFC 6902 evaluator as oracle), evaluated on bounded (a, b, target) triples.",
         "conformance is bounded only.", "8 C10"),
 "C11": ("other", "Proved for all inputs: RenderMerge rejects non-merge hunks without touching the caller's diff (frame obligation; it works on a copy) and only calls Patch on a valid diff. Agreement with the RFC 7386 pseudocode (transcribed in the hook file) is the contract of the wrapper verifRenderMergeFaithful, evaluated on all null-free, different document pairs of a bounded universe x {MERGE, SET+MERGE, MULTISET+MERGE}.",
         "semantic agreement is bounded only.", "8 C11"),
 "C12": ("other", "Proved for all inputs: ReadMergeString / readMergeInto never panic and return valid merge hunks (sorted key traversal). Equality with MergePatch(target, patch) of RFC 7386 is the contract of the wrapper verifReadMergeFaithful, evaluated on all (target, patch) pairs of a bounded universe that contains nulls, empty objects at depth, arrays and scalars. Three recorded deviations (null at the root; {} at the root over a non-object; nested {} over an existing object) are reported as KNOWN-FINDING.",
         "semantic agreement is bounded only.", "8 C12"),
 "C16": ("other", "Proved for all inputs: NewJsonNode returns a valid document or an error for every native value that encoding/json or yaml.v2 can produce (incl. yaml maps with interface{} keys), never panics, and is total on scalars and on maps of ready-made nodes; the readers establish validity for arbitrary text. Which scalars YAML quotes and how it resolves plain scalars is inside yaml.v2: the round trips JSON->YAML->JSON and 'JSON text read as YAML' are the contract of the wrapper verifYamlJson, evaluated on a bounded universe that contains the ambiguous strings named by the property.",
         "yaml.v2 / encoding/json behaviour is assumed for the proofs and only bounded-checked.", "8 C16"),
 "C08": ("other", "Proved for all inputs: jsonSet.patch and jsonMultiset.patch (hash-keyed maps, five loops each, with invariants) never panic, return valid documents, satisfy the strict leaf semantics for list paths, and the shared leaf function rejects a set/multiset hunk on a non-array (repaired defect); newPathSetKeys returns a valid key object. Set / bag semantics independent of member order is the contract of the wrapper verifSetSemantics (reference: remove exactly the listed members, fail when absent or not present often enough, add the listed ones), evaluated on all (a, b, target) triples of arrays over {1,2,3} up to length 3 under SET and MULTISET; verifSetPatchNonArray and verifKeyedMember cover non-array targets and keyed members. The ignored nested failure of keyed members is reported as KNOWN-FINDING.",
         "membership is decided by hash codes (not modelled); the whole-view membership postcondition is bounded only.", "8 C08"),
 "C14": ("other", "Effect model (ghost world: stdout, stderr line count, last file written, exit status; os.Exit ends the path; flag variables are read-only inputs). Proved for all inputs, for every function of both binaries (29 functions incl. the -v2=false code paths): stdout or the -o file receives exactly the string the library call returned and nothing else; exit is 2 with one log line on every error path incl. a failed write of the -o file (repaired defect), otherwise 1 iff haveDiff else 0; patch and translate modes exit 0 or 2; haveDiff is 'rendering is not the empty rendering of the format'; the flag-to-option translation of parseMetadata matches the README table (-set, -mset, -f merge, rejected -precision combinations); no function of the commands can panic. The process-level behaviour (both binaries built from the working tree and run on document pairs x 9 flag sets x {file, stdin, -o, unwritable -o, -p round trip}; malformed inputs) is evaluated by the wrappers verifCLICheck / verifCLIMalformed against the library called in-process.",
         "assumed contracts for flag, os, ioutil, fmt, log; calls into the library are external for package main (their results are unconstrained); -port and the GitHub-action entry are trusted (outside the subset); process runs are bounded.", "8 C14"),
}

def main():
    m = {"version": 1,
         "setup_cmd": "cd /verif/engine && GOFLAGS=-mod=mod GOPROXY=off go build -o /verif/bin/jdvc ./cmd/jdvc",
         "hooks": {"guard": "verif",
                   "enable": "go build -tags verif (files verif_contracts*.go, verif_spec*.go, verif_enum*.go, verif_props*.go are compiled only with this tag; contracts are //@ comments)",
                   "baseline_off_cmd": "cd /repo && go test -vet=off -count=1 ./... ; cd /repo/v2 && go test -vet=off -count=1 ./...",
                   "source_commits": subprocess.check_output(['git','-C','/repo','log','--format=%h','--grep=^verif hooks']).decode().split(),
                   "add_only": True},
         "engines": [{"name": "jdvc", "path": "/verif/engine", "serves_properties": sorted(CLAIMS),
                      "kind_free_text": "VC generator over go/ssa for the real jd functions (contracts as //@ comments behind build tag verif) + SMT portfolio (z3 4.8.12, z3 5.1.0, cvc5 1.0) + provenance obligations + runtime assertion checking harness (go test -overlay)"}],
         "checks": [], "not_applicable": []}
    for p in PROPS:
        if p in CLAIMS:
            cat, text, extra, ref = CLAIMS[p]
            m["checks"].append({"property_id": p,
                "quick_cmd": f"bin/jdvc check --property {p} --tier quick",
                "thorough_cmd": f"bin/jdvc check --property {p} --tier thorough",
                "evidence_file": f"evidence/{p}.json",
                "replay_cmd_template": "bin/jdvc replay {path}",
                "engine": "jdvc",
                "level_claimed": {"category": cat, "text": text, "design_ref": "DESIGN.md section " + ref},
                "level_note": NOTE + extra,
                "technique": TECH})
        else:
            m["not_applicable"].append({"property_id": p, "reason": "check under construction: contracts for the functions this property depends on are not yet registered"})
    json.dump(m, open('/verif/MANIFEST.json', 'w'), indent=1)

main()
