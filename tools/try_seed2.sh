#!/bin/bash
# usage: try_seed2.sh <seed-name> <worktree> <sub (A|B|.)> <property> [more properties...]
# Like try_seed.sh for a seed stored in <worktree>/_seed/<sub>; the directory of the demonstration
# test is derived from its package clause and the files the patch touches.
set -u
name=$1; wt=$2; sub=$3; shift 3
export GOFLAGS=-mod=mod GOPROXY=off
# optional lane: REPO=<scratch copy of /repo at HEAD> OUT=<scratch output root> BIN=<engine binary>; lanes can run at once
REPO=${REPO:-/repo}; OUT=${OUT:-/verif}; BIN=${BIN:-/verif/bin/jdvc}
export JDVC_REPO=$REPO JDVC_OUT=$OUT
S=/verif/seeded/$name
src=$wt/_seed/$sub
[ -f $src/patch.diff ] || { echo "no patch in $src"; exit 2; }
mkdir -p $S
cp $src/patch.diff $S/patch.diff
cp $src/*_test.go $S/ 2>/dev/null
cp $src/notes.md $S/notes.md 2>/dev/null
demo=$(ls $S/*_test.go | head -1)
pkg=$(grep -m1 '^package ' $demo | awk '{print $2}')
if [ "$pkg" = main ]; then
  if grep -q '^+++ b/v2/jd/' $S/patch.diff; then demodir=v2/jd; else demodir=.; fi
else
  if grep -q '^+++ b/lib/' $S/patch.diff; then demodir=lib; else demodir=v2; fi
fi
if grep -qi 'belongs in `\?lib\|goes in `\?lib\|place.* in `\?lib/' $S/notes.md 2>/dev/null && [ "$pkg" != main ]; then demodir=lib; fi
log=$S/validation.log; : > $log
echo "demo dir: $demodir" >> $log
cd $wt && git checkout -q -- . && git apply $S/patch.diff || { echo "patch does not apply" | tee -a $log; exit 2; }
(cd $wt/v2 && go test -vet=off -count=1 . ./jd 2>&1 | tail -2) >> $log 2>&1
(cd $wt && go test -vet=off -count=1 . ./lib 2>&1 | tail -2) >> $log 2>&1
cp $demo $wt/$demodir/zz_seed_demo_test.go
(cd $wt/$demodir && go test -vet=off -count=1 -run 'Seed|seed|Demo|demo' . 2>&1 | tail -1 | sed 's/^/demo WITH change: /') >> $log 2>&1
rm -f $wt/$demodir/zz_seed_demo_test.go
git -C $wt checkout -q -- .
cp $demo $wt/$demodir/zz_seed_demo_test.go
(cd $wt/$demodir && go test -vet=off -count=1 -run 'Seed|seed|Demo|demo' . 2>&1 | tail -1 | sed 's/^/demo WITHOUT change: /') >> $log 2>&1
rm -f $wt/$demodir/zz_seed_demo_test.go
cat $log
cd $REPO && git status --short | grep -v '^??' && { echo "/repo not clean"; exit 3; }
git -C $REPO apply $S/patch.diff || { echo "patch does not apply to /repo"; exit 2; }
# does the change still break the property on the current /repo (later fix: commits may have made it harmless)?
cp $demo $REPO/$demodir/zz_seed_demo_test.go
(cd $REPO/$demodir && go test -vet=off -count=1 -run 'Seed|seed|Demo|demo' . 2>&1 | tail -1 | sed 's/^/demo on current tree WITH change: /') | tee -a $log
rm -f $REPO/$demodir/zz_seed_demo_test.go
for p in "$@"; do
  (cd /verif && timeout 1500 $BIN check --property $p --tier quick > $S/check_$p.out 2>&1; echo "check $p exit=$?" | tee -a $log; grep -c '^VIOLATION' $S/check_$p.out | sed "s/^/  violations: /" | tee -a $log; grep '^VIOLATION\|^ENGINE' $S/check_$p.out | head -5 | cut -c1-260 | tee -a $log)
done
git -C $REPO checkout -- .
git -C $REPO status --short | grep -v '^??'
exit 0
