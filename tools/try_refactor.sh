#!/bin/bash
# usage: try_refactor.sh <name> <worktree> <n>
# applies the behaviour-preserving refactoring <worktree>/_seed/<n>/patch.diff to /repo, runs the quick
# checks of the properties anchored in the files it touches, and reverts /repo. Any VIOLATION or
# non-zero exit is a false alarm of the machinery.
set -u
name=$1; wt=$2; n=$3
export GOFLAGS=-mod=mod GOPROXY=off
# optional lane: REPO=<scratch copy of /repo> OUT=<scratch output root>; several lanes can run at once
REPO=${REPO:-/repo}; OUT=${OUT:-/verif}
export JDVC_REPO=$REPO JDVC_OUT=$OUT
S=/verif/refactors/$name
mkdir -p $S
cp $wt/_seed/$n/patch.diff $S/patch.diff || exit 2
cp $wt/_seed/$n/notes.md $S/notes.md 2>/dev/null
cd $REPO && git status --short | grep -v '^??' && { echo "/repo not clean"; exit 3; }
git -C $REPO apply $S/patch.diff || { echo "patch does not apply to /repo" | tee $S/result.txt; exit 2; }
files=$(grep '^+++ b/' $S/patch.diff | sed 's/^+++ b\///')
props=""
for f in $files; do
  case $f in
    v2/list.go) props="$props C01 C03 C05 C06 C07 C13 C15";;
    v2/patch_common.go) props="$props C01 C03 C08 C12 C13";;
    v2/object.go) props="$props C01 C03 C04 C05 C07 C13 C15";;
    v2/options.go|v2/array.go) props="$props C01 C04 C05 C13";;
    v2/set.go|v2/multiset.go|v2/hash_common.go) props="$props C01 C04 C05 C07 C08 C13 C15";;
    v2/diff_read.go) props="$props C02 C10 C12 C13";;
    v2/pointer.go|v2/path.go) props="$props C02 C09 C10 C13";;
    v2/diff_write.go|v2/diff.go|v2/diff_common.go) props="$props C02 C05 C09 C11 C13 C15";;
    v2/jd/main.go|main.go) props="$props C14 C05 C13";;
    v2/*) props="$props C04 C13 C15 C16";;
    lib/*) props="$props C17 C18";;
  esac
done
props=$(echo $props | tr ' ' '\n' | sort -u | tr '\n' ' ')
(cd $REPO/v2 && go build . ./jd 2>&1 | tail -2; cd $REPO && go build . ./lib 2>&1 | tail -2) > $S/build.txt
: > $S/result.txt
echo "files: $files" >> $S/result.txt
for p in $props; do
  (cd /verif && timeout 1500 bin/jdvc check --property $p --tier quick > $S/check_$p.out 2>&1; rc=$?; echo "$p exit=$rc V=$(grep -c '^VIOLATION' $S/check_$p.out) U=$(grep -c '^UNDECIDED' $S/check_$p.out) E=$(grep -c '^ENGINE' $S/check_$p.out)" >> $S/result.txt; grep '^VIOLATION\|^ENGINE' $S/check_$p.out | head -3 | cut -c1-220 >> $S/result.txt)
done
git -C $REPO checkout -- .
git -C $REPO clean -fdq -- v2 lib main.go 2>/dev/null
cat $S/result.txt
