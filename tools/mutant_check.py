#!/usr/bin/env python3
"""Check-level must-fail run: applies each mutant of selftest/mutants.json to a scratch copy of /repo
(a lane made with `git worktree add`), runs the registered quick check of the property the mutant
breaks with JDVC_REPO pointing at the lane, and reports whether the *check* (not just one obligation)
says VIOLATION.  usage: mutant_check.py <lane-repo> <lane-out> [bin] [ids...]"""
import json, subprocess, sys, os
lane, out = sys.argv[1], sys.argv[2]
binp = sys.argv[3] if len(sys.argv) > 3 else '/verif/bin/jdvc'
sel = sys.argv[4:]
PROP = {'list-drop-after-ctx':'C03','list-splice-off-by-one':'C03','list-revert-ctx-forward':'C03','list-bindex-off-by-one':'C03',
 'list-void-boundary-any':'C03','list-revert-bounds-fix':'C13','object-revert-ctx-forward':'C03','object-delete-wrong':'C03',
 'object-equals-len':'C04','dispatch-mset-as-set':'C04','objdiff-skip-subdiff':'C05','diffrest-prev-off-by-one':'C06',
 'diffrest-common-not-advanced':'C06','renderpatch-revert-clone':'C15','rendermerge-revert-copy':'C15','scalar-diff-drop-options':'C05',
 'patch-leaf-skip-equals':'C03','number-equals-strict':'C04','newjsonnode-nil-elem':'C13','list-append-skips-context':'C03',
 'cli-merge-exit-from-rendering':'C14'}
M = json.load(open('/verif/selftest/mutants.json'))
env = dict(os.environ, JDVC_REPO=lane, JDVC_OUT=out, GOFLAGS='-mod=mod', GOPROXY='off')
bad = 0
for m in M:
    if sel and m['id'] not in sel: continue
    f = m['file'].replace('/repo', lane, 1)
    src = open(f).read()
    if m['old'] not in src:
        print('SKIP    ', m['id'], '(text not found)'); continue
    open(f, 'w').write(src.replace(m['old'], m['new'], 1))
    try:
        p = PROP[m['id']]
        r = subprocess.run([binp, 'check', '--property', p, '--tier', 'quick'], env=env, capture_output=True, text=True, cwd='/verif')
    finally:
        open(f, 'w').write(src)
    v = [l for l in r.stdout.splitlines() if l.startswith('VIOLATION')]
    u = [l for l in r.stdout.splitlines() if l.startswith('UNDECIDED')]
    withinput = [l for l in v if 'no-failing-input-found' not in l]
    print(('DETECTED' if r.returncode == 1 and v else 'MISSED  '), m['id'], p, f'exit={r.returncode} violations={len(v)} with-input={len(withinput)} undecided={len(u)}', flush=True)
    if not (r.returncode == 1 and v): bad += 1
print('missed:', bad)
