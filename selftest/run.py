#!/usr/bin/env python3
"""Must-fail self-test: each mutant is applied in memory (-sed) and the named functions are
re-verified; the run fails unless an obligation whose name contains 'expect' fails.
Also verifies that the unmutated functions pass. Usage: selftest/run.py [id ...]"""
import json, subprocess, sys, concurrent.futures, os
M = json.load(open('/verif/selftest/mutants.json'))
sel = sys.argv[1:]
if sel: M = [m for m in M if m['id'] in sel]
def run(m):
    wd = f"/verif/work/selftest-{m['id']}"
    cmd = ['/verif/bin/jdvc','vc','-timeout','10','-work',wd,'-dir',m.get('dir','/repo/v2'),'-sed',f"{m['file']}:::{m['old']}:::{m['new']}"] + m['funcs']
    p = subprocess.run(cmd, capture_output=True, text=True)
    subprocess.run(['rm','-rf',wd])
    fails = [l for l in p.stdout.splitlines() if 'FAIL' in l]
    errs = [l for l in (p.stdout+p.stderr).splitlines() if 'ERROR' in l or 'package errors' in l or 'pattern not found' in l]
    hit = [l for l in fails if m['expect'] in l]
    return m['id'], bool(hit), len(fails), errs[:2]
bad = 0
if subprocess.run(['git','-C','/repo','status','--porcelain','--untracked-files=no'],capture_output=True,text=True).stdout.strip():
    print('refusing to run: /repo has uncommitted changes (this script applies patches and reverts the working tree)'); sys.exit(2)
# seeded changes (multi-file patches from /verif/seeded): applied to /repo one at a time, then reverted
SEEDS = json.load(open('/verif/selftest/seeds.json'))
if sel: SEEDS = [m for m in SEEDS if m['id'] in sel]
for m in SEEDS:
    patch = f"/verif/seeded/{m['id']}/patch.diff"
    if subprocess.run(['git','-C','/repo','apply',patch]).returncode != 0:
        print('MISSED  ', m['id'], '(patch does not apply)'); bad += 1; continue
    try:
        wd = f"/verif/work/selftest-{m['id']}"
        pr = subprocess.run(['/verif/bin/jdvc','vc','-timeout','10','-work',wd,'-dir',m.get('dir','/repo/v2')] + m['funcs'], capture_output=True, text=True)
        subprocess.run(['rm','-rf',wd])
    finally:
        subprocess.run(['git','-C','/repo','checkout','--','.'])
    fails = [l for l in pr.stdout.splitlines() if 'FAIL' in l]
    hit = [l for l in fails if m['expect'] in l]
    print(('DETECTED ' if hit else 'MISSED   ') + m['id'], f'({len(fails)} failing obligations)')
    if not hit: bad += 1
with concurrent.futures.ThreadPoolExecutor(max_workers=4) as ex:
    for mid, ok, nf, errs in ex.map(run, M):
        print(('DETECTED ' if ok else 'MISSED   ') + mid, f'({nf} failing obligations)', errs if errs else '')
        if not ok: bad += 1
print('missed:', bad)
sys.exit(1 if bad else 0)
